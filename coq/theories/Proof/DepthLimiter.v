(* Proof/DepthLimiter.v — the limiter and the decoder agree: on every input the limiter lets through,
   the decoder runs exactly as a decoder whose recursion is bounded by 64 (so its stack is), and a
   value the decoder accepts is refused by the limiter exactly when it nests deeper than 64. *)
From Coq Require Import ZifyBool ZifyN ZifyNat.
From Storrent Require Import Base.Bytes Base.Bencode Proof.Bencode Proof.TorSlice Proof.BencodeLocal.
From Storrent Require Import Model.DepthLimiter.
Open Scope N_scope.

Ltac Zify.zify_post_hook ::= Z.div_mod_to_equations.

Lemma lrun_app a : forall s b, lrun s (a ++ b) = match lrun s a with Some s' => lrun s' b | None => None end.
Proof. induction a as [|c r IH]; intros s b; cbn [app lrun]; [reflexivity|]. destruct (lstep s c); [apply IH|reflexivity]. Qed.

Lemma lrun_done d : forall bs, lrun (mk_lim d LDone) bs = Some (mk_lim d LDone).
Proof. induction bs as [|c r IH]; cbn [lrun lstep l_st]; [reflexivity|exact IH]. Qed.

(* ---------- inside an integer ---------- *)
Lemma lrun_int d ds : ~ In ch_e ds -> lrun (mk_lim d LInt) (ds ++ [ch_e]) = Some (mk_lim d (end_value d)).
Proof.
  induction ds as [|c r IH]; intros Hn; cbn [app lrun lstep l_st l_depth].
  - now rewrite N.eqb_refl.
  - destruct (c =? ch_e) eqn:E; [apply N.eqb_eq in E; exfalso; apply Hn; now left|]. apply IH. intros H. apply Hn. now right.
Qed.

(* ---------- inside a string body ---------- *)
Lemma lrun_body d : forall s n, len s = n -> 0 < n -> lrun (mk_lim d (LBody n)) s = Some (mk_lim d (end_value d)).
Proof.
  induction s as [|c r IH]; intros n Hl Hn; [rewrite len_nil in Hl; lia|]. rewrite len_cons in Hl.
  cbn [lrun lstep l_st l_depth]. destruct (n - 1 =? 0) eqn:E.
  - assert (r = []) as -> by (destruct r; [reflexivity|rewrite len_cons in Hl; lia]). reflexivity.
  - apply IH; lia.
Qed.

(* ---------- reading a length ---------- *)
Definition cap : N := 1099511627776.
Fixpoint acc (n : N) (ds : bytes) : N :=
  match ds with [] => n | c :: r => acc (if n <? cap then n * 10 + (c - 48) else n) r end.

Lemma lrun_digits d neg bad : forall ds n dg, Forall (fun c => is_digit c = true) ds ->
  lrun (mk_lim d (LLen n dg neg bad)) ds = Some (mk_lim d (LLen (acc n ds) (dg + len ds) neg bad)).
Proof.
  induction ds as [|c r IH]; intros n dg H; cbn [lrun acc]; [rewrite len_nil, N.add_0_r; reflexivity|].
  inversion H as [|? ? Hc Hr]; subst. cbn [lstep l_st l_depth].
  replace (c =? ch_colon) with false by (unfold is_digit, ch_colon in *; lia). rewrite Hc.
  rewrite IH by exact Hr. rewrite len_cons. do 3 f_equal. lia.
Qed.

(* digits_val with a start value *)
Lemma digits_val_some ds : forall a v, digits_val a ds = Some v -> Forall (fun c => is_digit c = true) ds /\ a <= v.
Proof.
  induction ds as [|c r IH]; intros a v; cbn [digits_val]; [intros [= <-]; split; [constructor|lia]|].
  destruct (is_digit c) eqn:D; [|discriminate]. intros H. destruct (IH _ _ H) as [F L]. split; [constructor; auto|lia].
Qed.

Lemma acc_small ds : forall a v, digits_val a ds = Some v -> v < cap -> acc a ds = v.
Proof.
  induction ds as [|c r IH]; intros a v; cbn [digits_val acc]; [now intros [= <-]|].
  destruct (is_digit c) eqn:D; [|discriminate]. intros H Hv. destruct (digits_val_some _ _ _ H) as [_ L].
  replace (a <? cap) with true by lia. now apply IH.
Qed.
Lemma acc_ge ds : forall a, a <= acc a ds.
Proof. induction ds as [|c r IH]; intros a; cbn [acc]; [lia|]. destruct (a <? cap); [specialize (IH (a * 10 + (c - 48)))|specialize (IH a)]; lia. Qed.
Lemma acc_big ds : forall a v, digits_val a ds = Some v -> cap <= v -> 2147483647 < acc a ds.
Proof.
  induction ds as [|c r IH]; intros a v; cbn [digits_val acc]; [intros [= <-]; unfold cap; lia|].
  destruct (is_digit c) eqn:D; [|discriminate]. intros H Hv. destruct (a <? cap) eqn:E.
  - now apply (IH _ v).
  - pose proof (acc_ge r a). unfold cap in *. lia.
Qed.

Lemma parse_bstr_inv bs s r k : parse_bstr bs = BOk s r k ->
  exists hd l, bs = hd ++ ch_colon :: s ++ r /\ ~ In ch_colon hd /\ parse_int 32 hd = Some l /\ (0 <= l)%Z /\ len s = Z.to_N l.
Proof.
  unfold parse_bstr. destruct (split_at ch_colon bs) as [[hd t]|] eqn:S; [|discriminate].
  apply split_at_inv in S as [E Hn]. destruct (parse_int 32 hd) as [l|] eqn:P; [|discriminate].
  destruct (l <? 0)%Z eqn:L; [discriminate|]. destruct (take (Z.to_N l) t) as [[s' r']|] eqn:T; [|discriminate].
  intros [= <- <- <-]. apply take_len in T as (T1 & _ & T3). subst t. exists hd, l. repeat split; auto. lia.
Qed.

(* the limiter reads a length exactly as the decoder's strconv.ParseInt(.., 10, 32) does *)
Lemma parse_udec_inv ds n : parse_udec ds = Some n -> ds <> [] /\ digits_val 0 ds = Some n.
Proof. unfold parse_udec. destruct ds; [discriminate|]. intros H. split; [discriminate|exact H]. Qed.

Lemma header_digits d neg ds n :
  ds <> [] -> digits_val 0 ds = Some n -> n <= 2147483647 -> (neg = true -> n = 0) ->
  forall dg0, lrun (mk_lim d (LLen 0 dg0 neg false)) (ds ++ [ch_colon]) =
              Some (mk_lim d (if n =? 0 then end_value d else LBody n)).
Proof.
  intros Hne Hv Hn Hneg dg0. destruct (digits_val_some _ _ _ Hv) as [Hd _].
  rewrite lrun_app, (lrun_digits d neg false ds 0 dg0 Hd). cbn [lrun lstep l_st l_depth]. rewrite N.eqb_refl.
  rewrite (acc_small ds 0 n Hv) by (unfold cap; lia).
  assert (0 < len ds) by (destruct ds; [congruence|rewrite len_cons; lia]).
  replace (dg0 + len ds =? 0) with false by lia. replace (2147483647 <? n) with false by lia. cbn [orb].
  destruct neg; cbn [andb]; [rewrite (Hneg eq_refl); cbn; reflexivity|]. destruct (n =? 0); reflexivity.
Qed.

Lemma lrun_header d hd l :
  parse_int 32 hd = Some l -> (0 <= l)%Z ->
  match hd with c :: _ => (c =? ch_l) || (c =? ch_d) || (c =? ch_e) || (c =? ch_i) = false | [] => True end ->
  lrun (mk_lim d LStart) (hd ++ [ch_colon]) = Some (mk_lim d (if Z.to_N l =? 0 then end_value d else LBody (Z.to_N l))).
Proof.
  intros P Hl Hc. unfold parse_int in P. destruct hd as [|c r]; [discriminate|].
  change (Z.of_N 32 - 1)%Z with 31%Z in P. apply orb_false_iff in Hc as [Hc Hi]. apply orb_false_iff in Hc as [Hc He]. apply orb_false_iff in Hc as [Hl' Hd'].
  cbn [app lrun]. unfold lstep at 1. cbn [l_st l_depth]. rewrite Hl', Hd', He, Hi. cbn [orb].
  destruct (c =? ch_minus) eqn:M.
  - (* -digits: only -0 *)
    apply N.eqb_eq in M. subst c. change (is_digit ch_minus) with false. cbv iota. cbn [orb negb].
    destruct (parse_udec r) as [n|] eqn:U; [|discriminate]. destruct (Z.of_N n <=? 2 ^ 31)%Z eqn:B; [|discriminate].
    injection P as <-. apply parse_udec_inv in U as [Hne Hv]. assert (n = 0) by lia. subst n.
    rewrite (header_digits d true r 0 Hne Hv) by (auto; lia). reflexivity.
  - destruct (c =? ch_plus) eqn:Pl.
    + apply N.eqb_eq in Pl. subst c. change (is_digit ch_plus) with false. cbv iota. cbn [orb negb].
      destruct (parse_udec r) as [n|] eqn:U; [|discriminate]. destruct (Z.of_N n <? 2 ^ 31)%Z eqn:B; [|discriminate].
      injection P as <-. apply parse_udec_inv in U as [Hne Hv]. rewrite N2Z.id.
      rewrite (header_digits d false r n Hne Hv) by (try discriminate; lia). reflexivity.
    + destruct (parse_udec (c :: r)) as [n|] eqn:U; [|discriminate]. destruct (Z.of_N n <? 2 ^ 31)%Z eqn:B; [|discriminate].
      injection P as <-. rewrite N2Z.id. unfold parse_udec in U. cbn [digits_val] in U. destruct (is_digit c) eqn:Dc; [|discriminate].
      (* first digit consumed by LStart, the rest by LLen *)
      destruct (digits_val_some _ _ _ U) as [Hd _].
      rewrite lrun_app, (lrun_digits d false false r (c - 48) 1 Hd). cbn [lrun lstep l_st l_depth]. rewrite N.eqb_refl.
      assert (Ea : acc (c - 48) r = n).
      { replace (0 * 10 + (c - 48)) with (c - 48) in U by lia. apply acc_small; [exact U|unfold cap; lia]. }
      rewrite Ea. replace (1 + len r =? 0) with false by lia. replace (2147483647 <? n) with false by lia. cbn [orb andb].
      destruct (n =? 0); reflexivity.
Qed.

(* ---------- scanning a string ---------- *)
Lemma lrun_string d bs s r k : parse_bstr bs = BOk s r k ->
  match bs with c :: _ => (c =? ch_l) || (c =? ch_d) || (c =? ch_e) || (c =? ch_i) = false | [] => True end ->
  exists used, bs = used ++ r /\ lrun (mk_lim d LStart) used = Some (mk_lim d (end_value d)).
Proof.
  intros P Hc. apply parse_bstr_inv in P as (hd & l & E & Hn & Pi & Hl & Hs).
  exists (hd ++ ch_colon :: s). split; [rewrite E, <- app_assoc; reflexivity|].
  change (hd ++ ch_colon :: s) with (hd ++ [ch_colon] ++ s). rewrite app_assoc, lrun_app.
  rewrite (lrun_header d hd l Pi Hl).
  - destruct (Z.to_N l =? 0) eqn:Z0.
    + assert (s = []) as -> by (destruct s; [reflexivity|rewrite len_cons in Hs; lia]). reflexivity.
    + apply lrun_body; lia.
  - destruct hd as [|c t]; [exact I|]. rewrite E in Hc. exact Hc.
Qed.

(* ---------- a successfully parsed value ---------- *)
Definition after (d : N) (v_depth : N) (res : option lim) : Prop :=
  match res with
  | Some s' => s' = mk_lim d (end_value d) /\ d + v_depth <= max_bencode_depth
  | None => max_bencode_depth < d + v_depth
  end.

Definition maxd (l : list bval) : N := fold_right (fun x m => N.max (vdepth x) m) 0 l.
Definition maxdk (l : list (bytes * bval)) : N := fold_right (fun kv m => N.max (vdepth (snd kv)) m) 0 l.
Lemma parse_int_head c t l : parse_int 32 (c :: t) = Some l -> (c =? ch_l) || (c =? ch_d) || (c =? ch_e) || (c =? ch_i) = false.
Proof.
  unfold parse_int. destruct (c =? ch_minus) eqn:M; [apply N.eqb_eq in M; now subst|].
  destruct (c =? ch_plus) eqn:P; [apply N.eqb_eq in P; now subst|].
  unfold parse_udec. cbn [digits_val]. destruct (is_digit c) eqn:D; [|discriminate]. intros _.
  unfold is_digit, ch_l, ch_d, ch_e, ch_i in *. lia.
Qed.

Lemma lrun_key d bs s r k : parse_bstr bs = BOk s r k ->
  exists used, bs = used ++ r /\ lrun (mk_lim d LStart) used = Some (mk_lim d (end_value d)).
Proof.
  intros P. apply (lrun_string d bs s r k P). pose proof P as P'. apply parse_bstr_inv in P' as (hd & l & E & _ & Pi & _).
  destruct bs as [|c t]; [exact I|]. destruct hd as [|c' t']; [discriminate|]. cbn [app] in E. injection E as <- _. eapply parse_int_head; eauto.
Qed.

Lemma end_value_pos d : 0 < d -> end_value d = LStart.
Proof. intros H. unfold end_value. now replace (d =? 0) with false by lia. Qed.

Lemma close_container d : 0 < d -> lrun (mk_lim d LStart) [ch_e] = Some (mk_lim (d - 1) (end_value (d - 1))).
Proof.
  intros Hd. cbn [lrun lstep l_st l_depth]. change (ch_e =? ch_l) with false. change (ch_e =? ch_d) with false. cbn [orb]. rewrite N.eqb_refl.
  unfold end_value. destruct (d <=? 1) eqn:E; [replace (d - 1) with 0 by lia; reflexivity|]. replace (d - 1 =? 0) with false by lia. reflexivity.
Qed.

Section Scan.
  Variable p : bytes -> bres bval.
  (* the element parser: scanning what it consumed, one level down *)
  Hypothesis p_scan : forall bs v rest k d, 0 < d -> d <= max_bencode_depth -> p bs = BOk v rest k ->
    exists used, bs = used ++ rest /\ after d (vdepth v) (lrun (mk_lim d LStart) used).

  Lemma list_loop_struct g : forall r acc k0 v rest k, list_loop p g r acc k0 = BOk v rest k ->
    exists news u, v = BList (rev acc ++ news) /\ r = u ++ rest.
  Proof.
    induction g as [|g IH]; intros r acc k0 v rest k; cbn [list_loop]; [discriminate|].
    destruct r as [|x r']; [discriminate|]. destruct (x =? ch_e).
    - intros [= <- <- <-]. exists [], [x]. now rewrite app_nil_r.
    - destruct (p (x :: r')) as [v1 r1 k1|e k1] eqn:P; [|discriminate]. intros H.
      destruct (IH _ _ _ _ _ _ H) as (news & u & -> & Eu). destruct (p_scan _ _ _ _ 1 ltac:(lia) ltac:(unfold max_bencode_depth; lia) P) as (u1 & E1 & _).
      exists (v1 :: news), (u1 ++ u). cbn [rev]. rewrite <- app_assoc. split; [reflexivity|]. now rewrite E1, Eu, app_assoc.
  Qed.

  Lemma list_loop_scan g : forall r acc k0 v rest k d, 0 < d -> d <= max_bencode_depth ->
    list_loop p g r acc k0 = BOk v rest k ->
    exists used news, r = used ++ rest /\ v = BList (rev acc ++ news) /\
      match lrun (mk_lim d LStart) used with
      | Some s' => s' = mk_lim (d - 1) (end_value (d - 1)) /\ d + maxd news <= max_bencode_depth
      | None => max_bencode_depth < d + maxd news
      end.
  Proof.
    induction g as [|g IH]; intros r acc k0 v rest k d Hd Hm; cbn [list_loop]; [discriminate|].
    destruct r as [|x r']; [discriminate|]. destruct (x =? ch_e) eqn:Ex.
    - intros [= <- <- <-]. apply N.eqb_eq in Ex. subst x. exists [ch_e], []. rewrite app_nil_r. split; [reflexivity|]. split; [reflexivity|].
      rewrite (close_container d Hd). cbn [maxd fold_right]. split; [reflexivity|lia].
    - destruct (p (x :: r')) as [v1 r1 k1|e k1] eqn:P; [|discriminate]. intros H.
      destruct (p_scan _ _ _ _ d Hd Hm P) as (u1 & E1 & A1).
      destruct (lrun (mk_lim d LStart) u1) as [s1|] eqn:L1; cbn [after] in A1.
      + destruct A1 as [-> B1]. rewrite (end_value_pos d Hd) in L1.
        destruct (IH r1 (v1 :: acc) _ _ _ _ d Hd Hm H) as (u2 & news & E2 & Ev & A2).
        exists (u1 ++ u2), (v1 :: news). split; [rewrite E1, E2, app_assoc; reflexivity|].
        split; [rewrite Ev; cbn [rev]; now rewrite <- app_assoc|]. rewrite lrun_app, L1.
        cbn [maxd fold_right]. fold (maxd news). destruct (lrun (mk_lim d LStart) u2) as [s2|]; [destruct A2 as [-> B2]; split; [reflexivity|lia]|lia].
      + destruct (list_loop_struct _ _ _ _ _ _ _ H) as (news & u2 & Ev & E2).
        exists (u1 ++ u2), (v1 :: news). split; [rewrite E1, E2, app_assoc; reflexivity|].
        split; [rewrite Ev; cbn [rev]; now rewrite <- app_assoc|]. rewrite lrun_app, L1.
        cbn [maxd fold_right]. fold (maxd news). lia.
  Qed.

  Lemma dict_loop_struct g : forall r acc k0 v rest k, dict_loop p g r acc k0 = BOk v rest k ->
    exists news u, v = BDict (rev acc ++ news) /\ r = u ++ rest.
  Proof.
    induction g as [|g IH]; intros r acc k0 v rest k; cbn [dict_loop]; [discriminate|].
    destruct r as [|x r']; [discriminate|]. destruct (x =? ch_e).
    - intros [= <- <- <-]. exists [], [x]. now rewrite app_nil_r.
    - destruct (parse_bstr (x :: r')) as [key r1 k1|e k1] eqn:S; [|discriminate].
      destruct (p r1) as [v1 r2 k2|e k2] eqn:P; [|discriminate]. intros H.
      destruct (IH _ _ _ _ _ _ H) as (news & u & -> & Eu). destruct (p_scan _ _ _ _ 1 ltac:(lia) ltac:(unfold max_bencode_depth; lia) P) as (u1 & E1 & _).
      destruct (parse_bstr_suffix _ _ _ _ S) as [u0 E0].
      exists ((key, v1) :: news), (u0 ++ u1 ++ u). cbn [rev]. rewrite <- app_assoc. split; [reflexivity|]. now rewrite E0, E1, Eu, <- !app_assoc.
  Qed.

  Lemma dict_loop_scan g : forall r acc k0 v rest k d, 0 < d -> d <= max_bencode_depth ->
    dict_loop p g r acc k0 = BOk v rest k ->
    exists used news, r = used ++ rest /\ v = BDict (rev acc ++ news) /\
      match lrun (mk_lim d LStart) used with
      | Some s' => s' = mk_lim (d - 1) (end_value (d - 1)) /\ d + maxdk news <= max_bencode_depth
      | None => max_bencode_depth < d + maxdk news
      end.
  Proof.
    induction g as [|g IH]; intros r acc k0 v rest k d Hd Hm; cbn [dict_loop]; [discriminate|].
    destruct r as [|x r']; [discriminate|]. destruct (x =? ch_e) eqn:Ex.
    - intros [= <- <- <-]. apply N.eqb_eq in Ex. subst x. exists [ch_e], []. rewrite app_nil_r. split; [reflexivity|]. split; [reflexivity|].
      rewrite (close_container d Hd). cbn [maxdk fold_right]. split; [reflexivity|lia].
    - destruct (parse_bstr (x :: r')) as [key r1 k1|e k1] eqn:S; [|discriminate].
      destruct (p r1) as [v1 r2 k2|e k2] eqn:P; [|discriminate]. intros H.
      destruct (lrun_key d _ _ _ _ S) as (u0 & E0 & L0). rewrite (end_value_pos d Hd) in L0.
      destruct (p_scan _ _ _ _ d Hd Hm P) as (u1 & E1 & A1).
      destruct (lrun (mk_lim d LStart) u1) as [s1|] eqn:L1; cbn [after] in A1.
      + destruct A1 as [-> B1]. rewrite (end_value_pos d Hd) in L1.
        destruct (IH r2 ((key, v1) :: acc) _ _ _ _ d Hd Hm H) as (u2 & news & E2 & Ev & A2).
        exists (u0 ++ u1 ++ u2), ((key, v1) :: news). split; [rewrite E0, E1, E2, <- !app_assoc; reflexivity|].
        split; [rewrite Ev; cbn [rev]; now rewrite <- app_assoc|]. rewrite lrun_app, L0, lrun_app, L1.
        cbn [maxdk fold_right snd]. fold (maxdk news). destruct (lrun (mk_lim d LStart) u2) as [s2|]; [destruct A2 as [-> B2]; split; [reflexivity|lia]|lia].
      + destruct (dict_loop_struct _ _ _ _ _ _ _ H) as (news & u2 & Ev & E2).
        exists (u0 ++ u1 ++ u2), ((key, v1) :: news). split; [rewrite E0, E1, E2, <- !app_assoc; reflexivity|].
        split; [rewrite Ev; cbn [rev]; now rewrite <- app_assoc|]. rewrite lrun_app, L0, lrun_app, L1.
        cbn [maxdk fold_right snd]. fold (maxdk news). lia.
  Qed.
End Scan.

(* scanning the bytes of a successfully parsed value, at any depth: the limiter fails exactly when
   some container of the value lies deeper than the bound *)
Theorem value_scan f : forall bs v rest k d, d <= max_bencode_depth -> bparse f bs = BOk v rest k ->
  exists used, bs = used ++ rest /\ after d (vdepth v) (lrun (mk_lim d LStart) used).
Proof.
  induction f as [|f IH]; intros bs v rest k d Hm; cbn [bparse]; [discriminate|].
  assert (Hp : forall bs v rest k d', 0 < d' -> d' <= max_bencode_depth -> bparse f bs = BOk v rest k ->
                 exists used, bs = used ++ rest /\ after d' (vdepth v) (lrun (mk_lim d' LStart) used))
    by (intros bs0 v0 rest0 k0 d' _ Hd' Hp0; exact (IH bs0 v0 rest0 k0 d' Hd' Hp0)).
  destruct bs as [|c t]; [discriminate|].
  destruct (c =? ch_i) eqn:Ei.
  { destruct (split_at ch_e t) as [[ds r']|] eqn:S; [|discriminate]. intros [= <- <- <-]. apply split_at_inv in S as [E Hn].
    apply N.eqb_eq in Ei. subst c t. exists (ch_i :: ds ++ [ch_e]). split; [cbn [app]; now rewrite <- app_assoc|].
    cbn [lrun]. unfold lstep at 1. cbn [l_st l_depth]. change (ch_i =? ch_l) with false. change (ch_i =? ch_d) with false. change (ch_i =? ch_e) with false. cbn [orb]. rewrite N.eqb_refl.
    rewrite (lrun_int d ds Hn). cbn [after vdepth]. split; [reflexivity|lia]. }
  destruct (is_digit c) eqn:Dc.
  { destruct (parse_bstr (c :: t)) as [s r' k'|e k'] eqn:S; [|discriminate]. intros [= <- <- <-].
    destruct (lrun_key d _ _ _ _ S) as (u & E & L). exists u. split; [exact E|]. rewrite L. cbn [after vdepth]. split; [reflexivity|lia]. }
  destruct (c =? ch_l) eqn:El.
  { intros H. apply N.eqb_eq in El. subst c.
    assert (Hstep : lstep (mk_lim d LStart) ch_l = if max_bencode_depth <? d + 1 then None else Some (mk_lim (d + 1) LStart)) by reflexivity.
    destruct (max_bencode_depth <? d + 1) eqn:B.
    - destruct (list_loop_struct (bparse f) Hp _ _ _ _ _ _ _ H) as (news & u & -> & Eu).
      exists (ch_l :: u). split; [cbn [app]; now rewrite Eu|]. cbn [lrun]. rewrite Hstep. cbn [after vdepth]. lia.
    - destruct (list_loop_scan (bparse f) Hp _ _ _ _ _ _ _ (d + 1) ltac:(lia) ltac:(lia) H) as (u & news & Eu & -> & A).
      exists (ch_l :: u). split; [cbn [app]; now rewrite Eu|]. cbn [lrun]. rewrite Hstep. cbn [rev app after vdepth]. fold (maxd news).
      replace (d + 1 - 1) with d in A by lia. destruct (lrun (mk_lim (d + 1) LStart) u) as [s'|]; cbn [after]; [destruct A as [-> A]; split; [reflexivity|lia]|lia]. }
  destruct (c =? ch_d) eqn:Ed; [|discriminate].
  intros H. apply N.eqb_eq in Ed. subst c.
  assert (Hstep : lstep (mk_lim d LStart) ch_d = if max_bencode_depth <? d + 1 then None else Some (mk_lim (d + 1) LStart)) by reflexivity.
  destruct (max_bencode_depth <? d + 1) eqn:B.
  - destruct (dict_loop_struct (bparse f) Hp _ _ _ _ _ _ _ H) as (news & u & -> & Eu).
    exists (ch_d :: u). split; [cbn [app]; now rewrite Eu|]. cbn [lrun]. rewrite Hstep. cbn [after vdepth]. lia.
  - destruct (dict_loop_scan (bparse f) Hp _ _ _ _ _ _ _ (d + 1) ltac:(lia) ltac:(lia) H) as (u & news & Eu & -> & A).
    exists (ch_d :: u). split; [cbn [app]; now rewrite Eu|]. cbn [lrun]. rewrite Hstep. cbn [rev app after vdepth]. fold (maxdk news).
    replace (d + 1 - 1) with d in A by lia. destruct (lrun (mk_lim (d + 1) LStart) u) as [s'|]; cbn [after]; [destruct A as [-> A]; split; [reflexivity|lia]|lia].
Qed.

(* ---------- safety: what passes the limiter never makes the decoder recurse deeper than the bound ---------- *)
Section Eq.
  Variable p pb : bytes -> bres bval.
  Variable d : N.
  Hypothesis Hd : 0 < d.
  Hypothesis Hm : d <= max_bencode_depth.
  Hypothesis p_scan : forall bs v rest k, p bs = BOk v rest k ->
    exists used, bs = used ++ rest /\ after d (vdepth v) (lrun (mk_lim d LStart) used).
  Hypothesis Heq : forall bs s', lrun (mk_lim d LStart) bs = Some s' -> pb bs = p bs.

  Lemma step_through bs v rest k s' : p bs = BOk v rest k -> lrun (mk_lim d LStart) bs = Some s' ->
    lrun (mk_lim d LStart) rest = Some s'.
  Proof.
    intros P L. destruct (p_scan _ _ _ _ P) as (u & -> & A). rewrite lrun_app in L.
    destruct (lrun (mk_lim d LStart) u) as [s1|]; [|discriminate]. destruct A as [-> _]. now rewrite (end_value_pos d Hd) in L.
  Qed.

  Lemma list_loop_eq g : forall r acc k0 s', lrun (mk_lim d LStart) r = Some s' ->
    list_loop pb g r acc k0 = list_loop p g r acc k0.
  Proof.
    induction g as [|g IH]; intros r acc k0 s' L; cbn [list_loop]; [reflexivity|].
    destruct r as [|x r']; [reflexivity|]. destruct (x =? ch_e); [reflexivity|].
    rewrite (Heq _ _ L). destruct (p (x :: r')) as [v1 r1 k1|e k1] eqn:P; [|reflexivity].
    eapply IH. eapply step_through; eauto.
  Qed.

  Lemma dict_loop_eq g : forall r acc k0 s', lrun (mk_lim d LStart) r = Some s' ->
    dict_loop pb g r acc k0 = dict_loop p g r acc k0.
  Proof.
    induction g as [|g IH]; intros r acc k0 s' L; cbn [dict_loop]; [reflexivity|].
    destruct r as [|x r']; [reflexivity|]. destruct (x =? ch_e); [reflexivity|].
    destruct (parse_bstr (x :: r')) as [key r1 k1|e k1] eqn:S; [|reflexivity].
    destruct (lrun_key d _ _ _ _ S) as (u0 & E0 & L0). rewrite (end_value_pos d Hd) in L0.
    assert (L1 : lrun (mk_lim d LStart) r1 = Some s') by (rewrite E0, lrun_app, L0 in L; exact L).
    rewrite (Heq _ _ L1). destruct (p r1) as [v1 r2 k2|e k2] eqn:P; [|reflexivity].
    eapply IH. eapply step_through; eauto.
  Qed.
End Eq.

Theorem budget_eq f : forall bs d s', d <= max_bencode_depth -> lrun (mk_lim d LStart) bs = Some s' ->
  bparse_b f (max_bencode_depth - d) bs = bparse f bs.
Proof.
  induction f as [|f IH]; intros bs d s' Hm L; [reflexivity|]. cbn [bparse_b bparse].
  destruct bs as [|c t]; [reflexivity|]. destruct (c =? ch_i); [reflexivity|]. destruct (is_digit c); [reflexivity|].
  assert (Hcont : (c =? ch_l) || (c =? ch_d) = true -> d + 1 <= max_bencode_depth /\ lrun (mk_lim (d + 1) LStart) t = Some s').
  { intros Hc. cbn [lrun] in L. unfold lstep at 1 in L. cbn [l_st l_depth] in L. rewrite Hc in L.
    destruct (max_bencode_depth <? d + 1) eqn:B; [discriminate|]. split; [lia|exact L]. }
  destruct (c =? ch_l) eqn:El.
  { destruct (Hcont eq_refl) as [Hm1 L1]. replace (max_bencode_depth - d =? 0) with false by lia.
    replace (max_bencode_depth - d - 1) with (max_bencode_depth - (d + 1)) by lia.
    apply (list_loop_eq (bparse f) (bparse_b f (max_bencode_depth - (d + 1))) (d + 1) ltac:(lia)) with (s' := s').
    - intros bs v rest k Hp. exact (value_scan f bs v rest k (d + 1) Hm1 Hp).
    - intros bs s'' Ls. exact (IH bs (d + 1) s'' Hm1 Ls).
    - exact L1. }
  destruct (c =? ch_d) eqn:Ed; [|reflexivity].
  destruct (Hcont ltac:(now rewrite orb_true_r)) as [Hm1 L1]. replace (max_bencode_depth - d =? 0) with false by lia.
  replace (max_bencode_depth - d - 1) with (max_bencode_depth - (d + 1)) by lia.
  apply (dict_loop_eq (bparse f) (bparse_b f (max_bencode_depth - (d + 1))) (d + 1) ltac:(lia)) with (s' := s').
  - intros bs v rest k Hp. exact (value_scan f bs v rest k (d + 1) Hm1 Hp).
  - intros bs s'' Ls. exact (IH bs (d + 1) s'' Hm1 Ls).
  - exact L1.
Qed.

(* Safety.  On every input the limiter lets through in full, the decoder behaves exactly as a decoder
   that refuses to open a container more than 64 levels down: its recursion, hence its stack, is
   bounded whatever the input — well-formed, malformed or truncated.  (The decoder reads its input
   through the limiter, so it never sees more than a prefix the limiter has let through: apply this
   to that prefix.) *)
Theorem limiter_safe f bs : lim_passes bs = true -> bparse_b f max_bencode_depth bs = bparse f bs.
Proof.
  unfold lim_passes. destruct (lrun lim_init bs) as [s'|] eqn:L; [|discriminate]. intros _.
  replace max_bencode_depth with (max_bencode_depth - 0) at 1 by lia. apply (budget_eq f bs 0 s'); [unfold max_bencode_depth; lia|exact L].
Qed.

(* Exactness.  A value the decoder accepts is refused by the limiter exactly when it nests deeper
   than 64; when it is let through, so is everything that follows it. *)
Theorem limiter_exact bs v rest k : bdecode bs = BOk v rest k ->
  lim_passes bs = negb (max_bencode_depth <? vdepth v).
Proof.
  intros H. destruct (value_scan _ _ _ _ _ 0 ltac:(unfold max_bencode_depth; lia) H) as (u & -> & A).
  unfold lim_passes, lim_init. rewrite lrun_app. destruct (lrun (mk_lim 0 LStart) u) as [s'|]; cbn [after] in A.
  - destruct A as [-> A]. change (end_value 0) with LDone. rewrite lrun_done. replace (max_bencode_depth <? vdepth v) with false by lia. reflexivity.
  - replace (max_bencode_depth <? vdepth v) with true by lia. reflexivity.
Qed.

(* hence reading through the limiter and then decoding is bdecode_lim (Base/Bencode.v), the
   semantics the models of protocol.Read, tor.ReadTorrent, MetadataComplete and the tracker use *)
Corollary limited_decode bs v rest k : bdecode bs = BOk v rest k ->
  bdecode_lim bs = if lim_passes bs then BOk v rest k else BErr BSyntax k.
Proof. intros H. unfold bdecode_lim. rewrite H, (limiter_exact _ _ _ _ H). destruct (max_bencode_depth <? vdepth v); reflexivity. Qed.
