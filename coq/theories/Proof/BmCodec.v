(* Proof/BmCodec.v — the wire form of a bitmap: bm_of_bytes (bm_to_bytes b) = b for every well-formed
   bitmap, so a Bitfield carries exactly the pieces held and no spare bit. *)
From Coq Require Import ZifyBool ZifyN ZifyNat Sorted.
From Storrent Require Import Base.Bytes Base.Bencode Gen.Consts Model.Wire Model.PeerCore Proof.PeerCore Proof.Avail.
Open Scope N_scope.

Lemma testbit_byte_of_bits base l j : j < 8 -> N.testbit (byte_of_bits base l) (7 - j) = memN (base + j) l.
Proof.
  intros Hj. unfold byte_of_bits. cbn [fold_left].
  assert (E : j = 0 \/ j = 1 \/ j = 2 \/ j = 3 \/ j = 4 \/ j = 5 \/ j = 6 \/ j = 7) by lia.
  destruct (memN (base + 0) l) eqn:B0, (memN (base + 1) l) eqn:B1, (memN (base + 2) l) eqn:B2, (memN (base + 3) l) eqn:B3,
           (memN (base + 4) l) eqn:B4, (memN (base + 5) l) eqn:B5, (memN (base + 6) l) eqn:B6, (memN (base + 7) l) eqn:B7;
    destruct E as [->|[->|[->|[->|[->|[->|[->| ->]]]]]]]; rewrite ?B0, ?B1, ?B2, ?B3, ?B4, ?B5, ?B6, ?B7; reflexivity.
Qed.

Lemma byte_bits_in base byte x : In x (byte_bits base byte) <-> base <= x < base + 8 /\ N.testbit byte (7 - (x - base)) = true.
Proof.
  unfold byte_bits. rewrite in_flat_map. split.
  - intros (j & Hj & Hx). destruct (N.testbit byte (7 - j)) eqn:T; [|destruct Hx]. destruct Hx as [<-|[]].
    cbn [In] in Hj. replace (base + j - base) with j by lia. split; [lia|exact T].
  - intros [Hr T]. exists (x - base). split; [cbn [In]; lia|]. rewrite T. left. lia.
Qed.

Lemma bits_of_bytes_in : forall bs base x,
  In x (bits_of_bytes base bs) <->
  base <= x /\ (x - base) / 8 < len bs /\ N.testbit (nth (N.to_nat ((x - base) / 8)) bs 0) (7 - (x - base) mod 8) = true.
Proof.
  induction bs as [|b r IH]; intros base x; cbn [bits_of_bytes].
  - change (len []) with 0. split; [intros []|intros (_ & H & _); lia].
  - rewrite in_app_iff, byte_bits_in, IH, len_cons. split.
    + intros [[Hr T]|(H1 & H2 & T)].
      * replace ((x - base) / 8) with 0 by (symmetry; apply N.div_small; lia). cbn [N.to_nat nth].
        rewrite N.mod_small by lia. repeat split; try lia. exact T.
      * assert (Hq : (x - base) / 8 = (x - (base + 8)) / 8 + 1).
        { replace (x - base) with ((x - (base + 8)) + 1 * 8) by lia. rewrite N.div_add by lia. reflexivity. }
        assert (Hm : (x - base) mod 8 = (x - (base + 8)) mod 8).
        { replace (x - base) with ((x - (base + 8)) + 1 * 8) by lia. rewrite N.mod_add by lia. reflexivity. }
        rewrite Hq, Hm. repeat split; try lia. replace (N.to_nat ((x - (base + 8)) / 8 + 1)) with (S (N.to_nat ((x - (base + 8)) / 8))) by lia.
        cbn [nth]. exact T.
    + intros (H1 & H2 & T). destruct (x <? base + 8) eqn:E.
      * left. split; [lia|]. replace ((x - base) / 8) with 0 in T by (symmetry; apply N.div_small; lia).
        cbn [N.to_nat nth] in T. rewrite N.mod_small in T by lia. exact T.
      * right.
        assert (Hq : (x - base) / 8 = (x - (base + 8)) / 8 + 1).
        { replace (x - base) with ((x - (base + 8)) + 1 * 8) by lia. rewrite N.div_add by lia. reflexivity. }
        assert (Hm : (x - base) mod 8 = (x - (base + 8)) mod 8).
        { replace (x - base) with ((x - (base + 8)) + 1 * 8) by lia. rewrite N.mod_add by lia. reflexivity. }
        rewrite Hq, Hm in T. replace (N.to_nat ((x - (base + 8)) / 8 + 1)) with (S (N.to_nat ((x - (base + 8)) / 8))) in T by lia.
        cbn [nth] in T. repeat split; try lia. exact T.
Qed.

Lemma bm_to_bytes_map b :
  bm_to_bytes b = map (fun i => byte_of_bits (N.of_nat i * 8) (bits b)) (seq 0 (N.to_nat (blen b))).
Proof.
  unfold bm_to_bytes. generalize (blen b). intros n. induction n as [|n IH] using N.peano_ind; [reflexivity|].
  rewrite N.recursion_succ by (try reflexivity; intros ? ? -> ? ? ->; reflexivity).
  rewrite IH, N2Nat.inj_succ, seq_S, map_app. cbn [map Nat.add]. now rewrite N2Nat.id.
Qed.

Lemma bm_to_bytes_len b : len (bm_to_bytes b) = blen b.
Proof. rewrite bm_to_bytes_map. unfold len. rewrite map_length, seq_length. lia. Qed.

Lemma sorted_ext l1 l2 : sortedN l1 -> sortedN l2 -> (forall x, In x l1 <-> In x l2) -> l1 = l2.
Proof.
  revert l2. induction l1 as [|a r IH]; intros l2 S1 S2 H.
  - destruct l2 as [|b t]; [reflexivity|]. exfalso. apply (H b). now left.
  - destruct l2 as [|b t]; [exfalso; apply (H a); now left|].
    inversion S1 as [|? ? Sr Fa]; inversion S2 as [|? ? St Fb]; subst. rewrite Forall_forall in Fa, Fb.
    assert (a = b).
    { destruct (proj1 (H a) (or_introl eq_refl)) as [->|Ha]; [reflexivity|].
      destruct (proj2 (H b) (or_introl eq_refl)) as [->|Hb]; [reflexivity|].
      specialize (Fa _ Hb). specialize (Fb _ Ha). lia. }
    subst b. f_equal. apply IH; auto. intros x. split; intros Hx.
    + destruct (proj1 (H x) (or_intror Hx)) as [->|Hx']; [specialize (Fa _ Hx); lia|exact Hx'].
    + destruct (proj2 (H x) (or_intror Hx)) as [->|Hx']; [specialize (Fb _ Hx); lia|exact Hx'].
Qed.

Theorem bm_codec b : wf_bm b -> bm_of_bytes (bm_to_bytes b) = b.
Proof.
  intros [S R]. unfold bm_of_bytes. rewrite bm_to_bytes_len. destruct b as [n l]. cbn [blen bits] in *. f_equal.
  apply sorted_ext; [apply bits_of_bytes_spec|exact S|]. intros x.
  rewrite bits_of_bytes_in, N.sub_0_r, bm_to_bytes_len. cbn [blen].
  rewrite bm_to_bytes_map. cbn [blen bits]. split.
  - intros (_ & Hq & T). rewrite (nth_indep _ 0 (byte_of_bits (N.of_nat 0 * 8) l)) in T by (rewrite map_length, seq_length; lia).
    rewrite (map_nth (fun i => byte_of_bits (N.of_nat i * 8) l)), seq_nth in T by lia.
    rewrite testbit_byte_of_bits in T by (apply N.mod_lt; lia). apply memN_In'.
    replace (N.of_nat (0 + N.to_nat (x / 8)) * 8 + x mod 8) with x in T by lia. exact T.
  - intros Hx. pose proof (R x Hx) as Hq. split; [lia|]. split; [exact Hq|].
    rewrite (nth_indep _ 0 (byte_of_bits (N.of_nat 0 * 8) l)) by (rewrite map_length, seq_length; lia).
    rewrite (map_nth (fun i => byte_of_bits (N.of_nat i * 8) l)), seq_nth by lia.
    rewrite testbit_byte_of_bits by (apply N.mod_lt; lia).
    replace (N.of_nat (0 + N.to_nat (x / 8)) * 8 + x mod 8) with x by lia. now apply memN_In'.
Qed.
