(* Proof/FuseWalk.v — the FUSE view: walking a path component by component through
   directory.Lookup resolves exactly as the specification says (a file node for a path of the table,
   a directory node for a proper prefix of one, ENOENT for anything else), for every sane table. *)
From Coq Require Import ZifyBool ZifyN ZifyNat.
From Storrent Require Import Base.Bytes Base.Bencode Model.Wire Model.Torfile Model.Namespace Proof.Namespace.
Open Scope N_scope.

(* ---------- Parse (String p) = p ---------- *)
Definition okc (c : bytes) : Prop := c <> [] /\ contains 47 c = false.

Lemma valid_okc c : valid_component c = true -> okc c.
Proof.
  intros H. split; [intros ->; discriminate|].
  destruct (contains 47 c) eqn:E; [|reflexivity]. exfalso. unfold valid_component in H. rewrite E in H. cbn [negb] in H.
  repeat match type of H with context [match ?x with _ => _ end] => destruct x end; discriminate.
Qed.

Lemma split_app c : contains 47 c = false -> forall cur s, split_slash (c ++ s) cur = split_slash s (rev c ++ cur).
Proof.
  induction c as [|x c IH]; intros Hc cur s; [reflexivity|]. cbn [contains] in Hc. apply orb_false_iff in Hc as [Hx Hc].
  cbn [app split_slash]. unfold slash. rewrite Hx, (IH Hc). cbn [rev]. now rewrite <- app_assoc.
Qed.

Lemma split_join p : p <> [] -> Forall okc p -> split_slash (join p) [] = p.
Proof.
  induction p as [|c r IH]; intros Hne Hv; [congruence|]. inversion Hv as [|? ? [Hc1 Hc2] Hr]; subst.
  destruct r as [|c2 r'].
  - cbn [join]. rewrite <- (app_nil_r c) at 1. rewrite (split_app c Hc2). cbn [split_slash]. now rewrite app_nil_r, rev_involutive.
  - change (join (c :: c2 :: r')) with (c ++ slash :: join (c2 :: r')). rewrite (split_app c Hc2). cbn [split_slash].
    rewrite N.eqb_refl, app_nil_r, rev_involutive, IH; [reflexivity|discriminate|exact Hr].
Qed.

Lemma drop_empty_ok p : match p with c :: _ => c <> [] | [] => True end -> drop_empty p = p.
Proof. destruct p as [|[|x c] r]; cbn; intros H; congruence. Qed.

Lemma parse_join p : Forall okc p -> parse (join p) = p.
Proof.
  intros Hv. destruct p as [|c r] eqn:E; [reflexivity|]. rewrite <- E in *. unfold parse.
  rewrite split_join by (subst; [discriminate|assumption] || congruence || assumption).
  rewrite (drop_empty_ok p) by (subst p; inversion Hv as [|? ? [H1 _] _]; exact H1).
  rewrite drop_empty_ok; [apply rev_involutive|].
  destruct (rev p) as [|z t] eqn:R; [exact I|].
  assert (Hin : In z p) by (apply (proj2 (in_rev p z)); rewrite R; now left).
  rewrite Forall_forall in Hv. exact (proj1 (Hv z Hin)).
Qed.

(* ---------- prefixes ---------- *)
Lemma has_prefix_iff d : forall p, has_prefix_path d p = true <-> exists rest, p = d ++ rest.
Proof.
  induction d as [|a d IH]; intros p; cbn [has_prefix_path].
  - split; [intros _; exists p; reflexivity|reflexivity].
  - destruct p as [|b p].
    + split; [discriminate|]. intros [rest H]. cbn in H. discriminate H.
    + rewrite andb_true_iff, bytes_eqb_eq, IH. split.
      * intros [-> [rest ->]]. exists rest. reflexivity.
      * intros [rest H]. cbn in H. injection H as -> ->. split; [reflexivity|]. exists rest. reflexivity.
Qed.

Lemma within_iff p d : within p d = true <-> exists x rest, p = d ++ x :: rest.
Proof.
  unfold within. rewrite andb_true_iff, has_prefix_iff. split.
  - intros [Hl [rest ->]]. destruct rest as [|x r]; [|eauto]. rewrite app_nil_r in Hl. apply Nat.ltb_lt in Hl. exfalso. exact (Nat.lt_irrefl _ Hl).
  - intros (x & rest & ->). split; [|eauto]. apply Nat.ltb_lt. rewrite app_length. cbn [length]. apply Nat.lt_add_pos_r. apply Nat.lt_0_succ.
Qed.

(* the test of directory.Lookup: the file lies under d/c *)
Definition under (d : pth) (c : bytes) (f : torfile) : bool :=
  within (f_path f) d && bytes_eqb (nth (length d) (f_path f) []) c.

Lemma under_iff d c f : under d c f = true <-> exists rest, f_path f = d ++ c :: rest.
Proof.
  unfold under. rewrite andb_true_iff, within_iff, bytes_eqb_eq. split.
  - intros [(x & rest & E) Hn]. rewrite E, app_nth2, Nat.sub_diag in Hn by lia. cbn in Hn. subst x. eauto.
  - intros [rest E]. split; [eauto|]. rewrite E, app_nth2, Nat.sub_diag by lia. reflexivity.
Qed.

(* ---------- Lookup and the walk ---------- *)
Lemma lookup_spec files d c : Forall okc d ->
  dir_lookup files (join d) c =
  match find (under d c) files with
  | None => None
  | Some f => if (length d + 1 <? length (f_path f))%nat then Some (FDir (join (d ++ [c]))) else Some (FFile (join (d ++ [c])))
  end.
Proof. intros Hd. unfold dir_lookup. cbv zeta. rewrite (parse_join d Hd). reflexivity. Qed.

Section Table.
  Variable files : list torfile.
  (* no path of the table is a proper prefix of another (or of itself) *)
  Hypothesis Hpre : forall f g, In f files -> In g files -> within (f_path f) (f_path g) = false.

  Definition expect (p : pth) : option fnode :=
    match spec_resolve files p with
    | RFile _ _ => Some (FFile (join p))
    | RDir => Some (FDir (join p))
    | RNone => None
    end.

  Lemma spec_none p : (forall f, In f files -> f_path f <> p) ->
    (forall f, In f files -> within (f_path f) p = false) -> spec_resolve files p = RNone.
  Proof.
    intros H1 H2. unfold spec_resolve. destruct (find _ files) as [g|] eqn:F.
    - apply find_some in F as [Hin E]. apply path_eqb_eq in E. exfalso. now apply (H1 g Hin).
    - destruct (existsb _ files) eqn:E; [|reflexivity]. apply existsb_exists in E as [f [Hin W]]. rewrite (H2 f Hin) in W. discriminate.
  Qed.
  Lemma spec_file p f : In f files -> f_path f = p -> exists o l, spec_resolve files p = RFile o l.
  Proof.
    intros Hin E. unfold spec_resolve. destruct (find _ files) as [g|] eqn:F; [eauto|].
    apply (find_none _ _ F) in Hin. rewrite <- E in Hin. assert (path_eqb (f_path f) (f_path f) = true) by now apply path_eqb_eq. congruence.
  Qed.
  Lemma spec_dir p f : In f files -> within (f_path f) p = true -> spec_resolve files p = RDir.
  Proof.
    intros Hin W. unfold spec_resolve. destruct (find _ files) as [g|] eqn:F.
    - apply find_some in F as [Hg E]. apply path_eqb_eq in E. subst p. rewrite (Hpre f g Hin Hg) in W. discriminate.
    - replace (existsb _ files) with true; [reflexivity|]. symmetry. apply existsb_exists. eauto.
  Qed.

  Theorem walk_spec : forall p d, Forall okc d -> Forall okc p -> p <> [] ->
    walk files (FDir (join d)) p = expect (d ++ p).
  Proof.
    induction p as [|c r IH]; intros d Hd Hp Hne; [congruence|]. inversion Hp as [|? ? Hc Hr]; subst.
    cbn [walk]. rewrite (lookup_spec files d c Hd).
    destruct (find (under d c) files) as [f|] eqn:F.
    - apply find_some in F as [Hin U]. apply under_iff in U as [rest E].
      destruct rest as [|x rest].
      + (* a file d/c *)
        replace (length d + 1 <? length (f_path f))%nat with false by (rewrite E, app_length; cbn [length]; lia).
        destruct r as [|c2 r'].
        * cbn [walk]. unfold expect. destruct (spec_file (d ++ [c]) f Hin E) as (o & l & ->). reflexivity.
        * cbn [walk]. unfold expect. rewrite spec_none; [reflexivity| |].
          -- intros g Hg Eg. assert (W : within (f_path g) (f_path f) = true) by (apply within_iff; exists c2, r'; rewrite Eg, E, <- app_assoc; reflexivity).
             rewrite (Hpre g f Hg Hin) in W. discriminate.
          -- intros g Hg. destruct (within (f_path g) (d ++ c :: c2 :: r')) eqn:W; [|reflexivity]. apply within_iff in W as (y & t & Eg).
             assert (W : within (f_path g) (f_path f) = true) by (apply within_iff; exists c2, (r' ++ y :: t); rewrite Eg, E, <- !app_assoc; reflexivity).
             rewrite (Hpre g f Hg Hin) in W. discriminate.
      + (* a directory d/c *)
        replace (length d + 1 <? length (f_path f))%nat with true by (rewrite E, app_length; cbn [length]; lia).
        assert (Hd' : Forall okc (d ++ [c])) by (apply Forall_app; split; [exact Hd|constructor; [exact Hc|constructor]]).
        destruct r as [|c2 r'].
        * cbn [walk]. unfold expect. rewrite (spec_dir (d ++ [c]) f Hin); [reflexivity|].
          apply within_iff. exists x, rest. rewrite E, <- app_assoc. reflexivity.
        * rewrite (IH (d ++ [c]) Hd' Hr) by discriminate. rewrite <- app_assoc. reflexivity.
    - (* nothing under d/c *)
      unfold expect. rewrite spec_none; [reflexivity| |].
      + intros g Hg Eg. apply (find_none _ _ F) in Hg. assert (U : under d c g = true) by (apply under_iff; eauto). congruence.
      + intros g Hg. destruct (within (f_path g) (d ++ c :: r)) eqn:W; [|reflexivity]. apply within_iff in W as (y & t & Eg).
        apply (find_none _ _ F) in Hg. assert (U : under d c g = true) by (apply under_iff; exists (r ++ y :: t); rewrite Eg, <- app_assoc; reflexivity).
        congruence.
  Qed.
End Table.

(* ---------- from the decidable sanity test ---------- *)
Fixpoint nodup_paths (l : list torfile) : bool :=
  match l with
  | [] => true
  | f :: r => negb (existsb (fun g => path_eqb (f_path f) (f_path g) ||
                                      within (f_path f) (f_path g) || within (f_path g) (f_path f)) r)
              && nodup_paths r
  end.
Lemma sane_unfold files :
  sane files = forallb (fun f => forallb valid_component (f_path f) && negb (is_nil_path (f_path f))) files && nodup_paths files.
Proof. reflexivity. Qed.

Lemma within_irrefl p : within p p = false.
Proof. unfold within. now rewrite Nat.ltb_irrefl. Qed.

Lemma nodup_pre l : nodup_paths l = true -> forall f g, In f l -> In g l -> within (f_path f) (f_path g) = false.
Proof.
  induction l as [|f0 r IH]; intros H f g Hf Hg; [destruct Hf|]. cbn [nodup_paths] in H. apply andb_true_iff in H as [H0 Hr].
  apply negb_true_iff in H0.
  assert (K : forall x, In x r -> within (f_path f0) (f_path x) = false /\ within (f_path x) (f_path f0) = false).
  { intros x Hx. destruct (within (f_path f0) (f_path x)) eqn:W1, (within (f_path x) (f_path f0)) eqn:W2; auto; exfalso;
    (assert (E : existsb (fun g => path_eqb (f_path f0) (f_path g) || within (f_path f0) (f_path g) || within (f_path g) (f_path f0)) r = true)
      by (apply existsb_exists; exists x; split; [exact Hx|rewrite W1, W2; now rewrite ?orb_true_r]); congruence). }
  destruct Hf as [<-|Hf], Hg as [<-|Hg].
  - apply within_irrefl.
  - apply (K g Hg).
  - apply (K f Hf).
  - now apply IH.
Qed.

(* walking any path of valid names from the torrent's directory node *)
Theorem fuse_walk files p :
  sane files = true -> forallb valid_component p = true -> p <> [] ->
  walk files (FDir []) p = expect files p.
Proof.
  intros Hs Hp Hne. rewrite sane_unfold in Hs. apply andb_true_iff in Hs as [_ Hn].
  change (FDir []) with (FDir (join [])). change p with ([] ++ p) at 2.
  apply walk_spec; [exact (nodup_pre files Hn)|constructor| |exact Hne].
  apply Forall_forall. intros c Hc. apply valid_okc. rewrite forallb_forall in Hp. now apply Hp.
Qed.

(* ---------- ReadDirAll ---------- *)
Definition dir_entry (d : pth) (dirs : list bytes) (name : bytes) (isdir : bool) (f : torfile) : Prop :=
  f_pad f = false /\
  if isdir then existsb (bytes_eqb name) dirs = false /\ exists x rest, f_path f = d ++ name :: x :: rest
  else f_path f = d ++ [name].

Lemma existsb_eqb_cons name n0 dirs :
  existsb (bytes_eqb name) (n0 :: dirs) = false <-> name <> n0 /\ existsb (bytes_eqb name) dirs = false.
Proof.
  cbn [existsb]. rewrite orb_false_iff. split; intros [H1 H2]; split; auto.
  - intros ->. assert (bytes_eqb n0 n0 = true) by now apply bytes_eqb_eq. congruence.
  - destruct (bytes_eqb name n0) eqn:E; [apply bytes_eqb_eq in E; contradiction|reflexivity].
Qed.

Lemma readdir_loop_spec d : forall files dirs name isdir,
  In (name, isdir) (readdir_loop files d dirs) <-> exists f, In f files /\ dir_entry d dirs name isdir f.
Proof.
  induction files as [|f0 r IH]; intros dirs name isdir; cbn [readdir_loop].
  - split; [intros []|intros [f [[] _]]].
  - destruct (f_pad f0) eqn:P.
    { rewrite IH. split; intros [f [Hin E]]; [exists f; split; [now right|exact E]|].
      destruct Hin as [<-|Hin]; [destruct E as [E _]; congruence|eauto]. }
    destruct (within (f_path f0) d) eqn:W; cbn [negb].
    2:{ rewrite IH. split; intros [f [Hin E]]; [exists f; split; [now right|exact E]|].
        destruct Hin as [<-|Hin]; [|eauto]. exfalso. destruct E as [_ E].
        assert (W' : within (f_path f0) d = true) by (apply within_iff; destruct isdir; [destruct E as [_ (x & rest & ->)]|rewrite E]; eauto).
        congruence. }
    apply within_iff in W as (n0 & rest0 & E0).
    replace (nth (length d) (f_path f0) []) with n0 by (rewrite E0, app_nth2, Nat.sub_diag by lia; reflexivity).
    destruct rest0 as [|x0 rest0].
    + (* a file directly in d *)
      replace (length d + 1 <? length (f_path f0))%nat with false by (rewrite E0, app_length; cbn [length]; lia).
      cbn [In]. rewrite IH. split.
      * intros [[= <- <-]|[f [Hin E]]]; [exists f0; split; [now left|split; [exact P|exact E0]]|exists f; split; [now right|exact E]].
      * intros [f [[<-|Hin] E]]; [|right; eauto]. left. destruct E as [_ E]. destruct isdir.
        -- destruct E as [_ (x & rest & E)]. rewrite E0 in E. apply app_inv_head in E. discriminate.
        -- rewrite E0 in E. apply app_inv_head in E. now injection E as ->.
    + (* a subdirectory of d *)
      replace (length d + 1 <? length (f_path f0))%nat with true by (rewrite E0, app_length; cbn [length]; lia).
      destruct (existsb (bytes_eqb n0) dirs) eqn:X.
      * rewrite IH. split; intros [f [Hin E]]; [exists f; split; [now right|exact E]|].
        destruct Hin as [<-|Hin]; [|eauto]. exfalso. destruct E as [_ E]. destruct isdir.
        -- destruct E as [X' (x & rest & E)]. rewrite E0 in E. apply app_inv_head in E. injection E as <- _ _. congruence.
        -- rewrite E0 in E. apply app_inv_head in E. discriminate.
      * cbn [In]. rewrite IH. split.
        -- intros [[= <- <-]|[f [Hin [Pf E]]]].
           ++ exists f0. split; [now left|]. split; [exact P|]. split; [exact X|eauto].
           ++ exists f. split; [now right|]. split; [exact Pf|]. destruct isdir; [|exact E].
              destruct E as [X' E]. apply existsb_eqb_cons in X' as [_ X']. auto.
        -- intros [f [[<-|Hin] [Pf E]]].
           ++ left. destruct isdir.
              ** destruct E as [_ (x & rest & E)]. rewrite E0 in E. apply app_inv_head in E. now injection E as <- _ _.
              ** rewrite E0 in E. apply app_inv_head in E. discriminate.
           ++ destruct isdir; [|right; exists f; split; [exact Hin|split; [exact Pf|exact E]]].
              destruct E as [X' E]. destruct (bytes_eqb name n0) eqn:B.
              ** apply bytes_eqb_eq in B. subst. now left.
              ** right. exists f. split; [exact Hin|]. split; [exact Pf|]. split; [|exact E].
                 apply existsb_eqb_cons. split; [|exact X']. intros ->. assert (bytes_eqb n0 n0 = true) by now apply bytes_eqb_eq. congruence.
Qed.

Lemma readdir_loop_nodup d : forall files dirs,
  NoDup (map fst (filter snd (readdir_loop files d dirs))).
Proof.
  induction files as [|f0 r IH]; intros dirs; cbn [readdir_loop]; [constructor|].
  destruct (f_pad f0); [apply IH|]. destruct (negb _); [apply IH|].
  destruct (_ <? _)%nat; [|cbn [filter snd]; apply IH].
  destruct (existsb _ dirs); [apply IH|]. cbn [filter snd map fst]. constructor; [|apply IH].
  intros Hin. apply in_map_iff in Hin as [[nm b] [E Hin]]. cbn [fst] in E. subst nm. apply filter_In in Hin as [Hin Hb]. cbn [snd] in Hb. subst b.
  apply readdir_loop_spec in Hin as [f [_ [_ [X _]]]]. apply existsb_eqb_cons in X as [X _]. congruence.
Qed.

(* ReadDirAll of the directory reached by d: a file entry for exactly the non-padding files directly
   in d, a directory entry for exactly the first components below d of the non-padding files deeper
   down, and no directory name twice *)
Theorem fuse_readdir files d name isdir : Forall okc d ->
  (In (name, isdir) (dir_readdir files (join d)) <->
   exists f, In f files /\ f_pad f = false /\
             if isdir then exists x rest, f_path f = d ++ name :: x :: rest else f_path f = d ++ [name]) /\
  NoDup (map fst (filter snd (dir_readdir files (join d)))).
Proof.
  intros Hd. unfold dir_readdir. rewrite (parse_join d Hd). split; [|apply readdir_loop_nodup].
  rewrite readdir_loop_spec. unfold dir_entry. split; intros [f [Hin [P E]]]; exists f; (split; [exact Hin|]); (split; [exact P|]).
  - destruct isdir; [destruct E as [_ E]|]; exact E.
  - destruct isdir; [split; [reflexivity|exact E]|exact E].
Qed.

(* file.Attr of the node a walk ends in: the length of the table's file with that path *)
Theorem fuse_attr files total p f0 : Forall okc p ->
  file_attr (f0 :: files) total (join p) =
  match find (fun f => path_eqb p (f_path f)) (f0 :: files) with Some f => Some (f_len f) | None => None end.
Proof. intros Hp. unfold file_attr. now rewrite (parse_join p Hp). Qed.
