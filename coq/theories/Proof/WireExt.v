(* Proof/WireExt.v — round trip of the bencoded extension messages (BEP 9 ut_metadata, BEP 11
   ut_pex, BEP 10 extended handshake) and of the remaining extension messages through the
   independent encoder and the model of protocol.Read. *)
From Coq Require Import ZifyBool ZifyN ZifyNat String.
From Storrent Require Import Base.Bytes Base.Bencode Gen.Consts Model.Wire Model.WireSpec Proof.Bencode Proof.Wire
  Proof.WireSpec Proof.BencodeRT.
Open Scope N_scope.

Ltac Zify.zify_post_hook ::= Z.div_mod_to_equations.

(* closed key comparisons *)
Ltac eval_keys :=
  repeat match goal with
  | |- context [key_is (ascii_bytes ?a) ?b] =>
      let v := eval vm_compute in (key_is (ascii_bytes a) b) in change (key_is (ascii_bytes a) b) with v
  end; cbv iota.

(* optional entries *)
Definition oent (b : bool) (e : entry) : list entry := if b then [e] else [].
Definition ie (k : string) (n : N) : entry := mk_entry (ascii_bytes k) (benc_int n) (BInt (dec n)) 0.
Definition se (k : string) (s : bytes) : entry := mk_entry (ascii_bytes k) (benc_str s) (BStr s) (len s).

Lemma ent_oent b k e : en_key e = ascii_bytes k -> ent b k (en_enc e) = map ekv (oent b e).
Proof. intros E. unfold ent, oent, ekv. destruct b; [cbn [map]; now rewrite E|reflexivity]. Qed.

Lemma good_oent f b e : good_entry f e -> Forall (good_entry f) (oent b e).
Proof. destruct b; cbn; auto. Qed.
Lemma oent_length b e : (length (oent b e) <= 1)%nat.
Proof. destruct b; cbn; lia. Qed.

Lemma good_ie f k n : len (ascii_bytes k) < 2147483648 -> n < dec_max -> good_entry (S f) (ie k n).
Proof. intros Hk Hn. split; [exact Hk|]. now apply good_int. Qed.
Lemma good_se f k s : len (ascii_bytes k) < 2147483648 -> len s < 2147483648 -> good_entry (S f) (se k s).
Proof. intros Hk Hn. split; [exact Hk|]. now apply good_str. Qed.

Lemma ext_frame_decode sub payload rest :
  2 + len payload <= max_frame ->
  decode (ext_frame sub payload ++ rest) = decode_body (2 + len payload) 20 (sub :: payload ++ rest).
Proof.
  intros H. unfold ext_frame. rewrite decode_frame by (rewrite len_cons; lia). rewrite len_cons.
  replace (1 + (1 + len payload)) with (2 + len payload) by lia. reflexivity.
Qed.
Lemma ext_frame_len sub payload : len (ext_frame sub payload) = 6 + len payload.
Proof. unfold ext_frame. rewrite frame_len, len_cons. lia. Qed.

Lemma as_uint_dec bits n : n < 2 ^ bits -> bits <= 64 -> as_uint bits (BInt (dec n)) = Some n.
Proof.
  intros Hn Hb. unfold as_uint. assert (2 ^ bits <= 2 ^ 64) by (apply N.pow_le_mono_r; lia).
  rewrite parse_uint64_dec by (change (2 ^ 64) with 18446744073709551616 in *; lia). now rewrite N.mod_small.
Qed.

(* ---------- ut_metadata ---------- *)
Definition wf_metadata (tpe piece total : N) (d : bytes) : Prop :=
  tpe < 256 /\ piece < 4294967296 /\ total < 4294967296 /\ len d + 100 <= max_frame.

Definition meta_entries (tpe piece total : N) : list entry :=
  oent true (ie "msg_type" tpe) ++ oent true (ie "piece" piece) ++ oent (negb (total =? 0)) (ie "total_size" total).

Lemma benc_int_len n : n < 4294967296 -> len (benc_int n) <= 12.
Proof.
  intros H. unfold benc_int. rewrite len_cons, len_app, len_cons, len_nil.
  assert (len (dec n) <= 10); [|lia].
  unfold dec. 
  assert (G : forall fuel m, m < 10 ^ N.of_nat (S fuel) -> forall j, m < 10 ^ j -> 0 < j -> len (to_digits fuel m) <= j).
  { induction fuel as [|f IH]; intros m Hm j Hj Hj0.
    - cbn [to_digits]. rewrite len_cons, len_nil. lia.
    - cbn [to_digits]. destruct (m <? 10) eqn:E; [rewrite len_cons, len_nil; lia|].
      rewrite len_app, len_cons, len_nil.
      assert (Hj1 : 1 < j). { destruct (N.eq_dec j 1) as [->|]; [change (10 ^ 1) with 10 in Hj; lia|lia]. }
      assert (len (to_digits f (m / 10)) <= j - 1); [|lia]. apply IH.
      + rewrite Nat2N.inj_succ, N.pow_succ_r' in Hm. apply N.div_lt_upper_bound; lia.
      + replace j with (N.succ (j - 1)) in Hj by lia. rewrite N.pow_succ_r' in Hj. apply N.div_lt_upper_bound; lia.
      + lia. }
  apply G; [change (10 ^ N.of_nat 41) with dec_max; unfold dec_max; lia| |lia]. change (10 ^ 10) with 10000000000. lia.
Qed.

Lemma key_len k : (length (list_ascii_of_string k) < 1000)%nat -> len (ascii_bytes k) < 2147483648.
Proof. intros H. unfold len, ascii_bytes. rewrite map_length. lia. Qed.
Ltac key_ok := apply key_len; vm_compute; lia.

Lemma benc_dict_length (kvs : list (bytes * bytes)) : (length kvs <= length (benc_dict kvs))%nat.
Proof.
  induction kvs as [|[k v] r IH]; [cbn; lia|]. cbn [benc_dict length]. unfold benc_str. rewrite !app_length. cbn [length]. lia.
Qed.
Lemma benc_d_length (kvs : list (bytes * bytes)) : (length kvs + 2 <= length (benc_d kvs))%nat.
Proof. unfold benc_d. cbn [length]. rewrite app_length. cbn [length]. pose proof (benc_dict_length kvs). lia. Qed.

(* the dictionary of a message: read back by bdecode, leaving what follows it inside the frame *)
Lemma bdecode_entries es tail :
  (forall f, Forall (good_entry (S f)) es) ->
  bdecode (benc_d (map ekv es) ++ tail) = BOk (BDict (map evv es)) tail (ecost es 0).
Proof.
  intros Hes. unfold bdecode. set (n := length (benc_d (map ekv es) ++ tail)).
  assert (Hn : (length es + 2 <= n)%nat).
  { subst n. rewrite app_length. pose proof (benc_d_length (map ekv es)) as L. rewrite map_length in L. lia. }
  destruct n as [|n]; [lia|]. apply bparse_dict; [apply Hes|lia].
Qed.

(* nesting depth of what the messages carry *)
Lemma vdepth_dict_le es d : Forall (fun e => vdepth (en_val e) <= d) es -> vdepth (BDict (map evv es)) <= 1 + d.
Proof.
  intros H. cbn [vdepth]. assert (G : fold_right (fun kv m => N.max (vdepth (snd kv)) m) 0 (map evv es) <= d); [|lia].
  induction H as [|e r He _ IH]; cbn [map fold_right]; [lia|]. unfold evv at 1. cbn [snd]. lia.
Qed.
Lemma lim_ok bs v r k : bdecode bs = BOk v r k -> vdepth v <= max_bencode_depth -> bdecode_lim bs = BOk v r k.
Proof. intros H Hd. unfold bdecode_lim. rewrite H. now replace (max_bencode_depth <? vdepth v) with false by lia. Qed.
Lemma oent_depth b e d : vdepth (en_val e) <= d -> Forall (fun e => vdepth (en_val e) <= d) (oent b e).
Proof. intros H. destruct b; cbn [oent]; auto. Qed.

Lemma small_dec n : n < 4294967296 -> n < dec_max.
Proof. intros H. unfold dec_max. change (10 ^ 41) with 100000000000000000000000000000000000000000. lia. Qed.

Lemma meta_entries_good tpe piece total f :
  tpe < 256 -> piece < 4294967296 -> total < 4294967296 -> Forall (good_entry (S f)) (meta_entries tpe piece total).
Proof.
  intros Ht Hp Hto. unfold meta_entries. apply Forall_app. split; [|apply Forall_app; split].
  - apply good_oent, good_ie; [key_ok|apply small_dec; lia].
  - apply good_oent, good_ie; [key_ok|apply small_dec; lia].
  - apply good_oent, good_ie; [key_ok|apply small_dec; lia].
Qed.

Theorem rt_metadata tpe piece total d :
  tpe < 256 -> piece < 4294967296 -> total < 4294967296 ->
  len (encode_spec (ExtendedMetadata ExtMetadata tpe piece total d)) <= 4 + max_frame ->
  rt (ExtendedMetadata ExtMetadata tpe piece total d).
Proof.
  intros Ht Hp Hto Hlen rest. cbn [norm encode_spec] in *.
  set (es := meta_entries tpe piece total).
  assert (Ekv : ent true "msg_type" (benc_int tpe) ++ ent true "piece" (benc_int piece) ++
                ent (negb (total =? 0)) "total_size" (benc_int total) = map ekv es).
  { subst es. unfold meta_entries. rewrite !map_app. unfold ent, oent, ekv, ie. cbn [map en_key en_enc]. destruct (negb _); reflexivity. }
  rewrite Ekv in *. set (P := benc_d (map ekv es) ++ d) in *.
  rewrite ext_frame_len in Hlen. rewrite ext_frame_decode by lia.
  unfold decode_body. change (20 =? 0) with false. cbv iota.
  repeat match goal with |- context [20 =? ?x] => let v := eval vm_compute in (20 =? x) in change (20 =? x) with v; cbv iota end.
  replace (2 + len P <? 2) with false by lia. unfold ExtMetadata at 1 2 3. 
  change (2 =? 0) with false. change (2 =? ExtPex) with false. change (2 =? 2) with true. cbv iota.
  replace (2 + len P - 2) with (len P) by lia. rewrite take_exact.
  assert (Hes : forall f, Forall (good_entry (S f)) es) by (intros f; apply meta_entries_good; assumption).
  assert (Hdep : vdepth (BDict (map evv es)) <= max_bencode_depth).
  { eapply N.le_trans; [apply (vdepth_dict_le es 0)|unfold max_bencode_depth; lia].
    subst es. unfold meta_entries. repeat (apply Forall_app; split); apply oent_depth; cbn; lia. }
  unfold P. rewrite (lim_ok _ _ _ _ (bdecode_entries es d Hes) Hdep).
  exists (ecost es 0 + 2 * len P). rewrite ext_frame_len. fold P.
  assert (Hm : decode_meta (BDict (map evv es)) =
               Some {| m_type := Some tpe; m_piece := Some piece; m_total := if total =? 0 then None else Some total |}).
  { subst es. unfold meta_entries, decode_meta, oent. cbn [app map]. unfold evv, ie. cbn [en_key en_val fold_opt].
    unfold meta_field at 1. eval_keys.
    rewrite (as_uint_dec 8 tpe) by (change (2 ^ 8) with 256; lia).
    destruct (total =? 0); cbn [negb map fold_opt en_key en_val].
    - unfold meta_field. eval_keys. rewrite (as_uint_dec 32 piece) by (change (2 ^ 32) with 4294967296; lia). reflexivity.
    - unfold meta_field at 1. eval_keys. rewrite (as_uint_dec 32 piece) by (change (2 ^ 32) with 4294967296; lia).
      unfold meta_field. eval_keys. rewrite (as_uint_dec 32 total) by (change (2 ^ 32) with 4294967296; lia). reflexivity. }
  rewrite Hm. cbn [m_type m_piece m_total]. replace (4 + (2 + len P)) with (6 + len P) by lia.
  destruct (total =? 0) eqn:E; [apply N.eqb_eq in E; now subst|reflexivity].
Qed.

(* ---------- the remaining fixed-width messages ---------- *)
Theorem rt_upload_only v : rt (ExtendedUploadOnly ExtUploadOnly v).
Proof.
  intros rest. exists 0. cbn [norm encode_spec]. rewrite ext_frame_decode by (cbn; unfold max_frame; lia).
  rewrite ext_frame_len. destruct v; reflexivity.
Qed.

Definition known_sub (sub : N) : bool := (sub =? 0) || (sub =? ExtPex) || (sub =? ExtMetadata) || (sub =? ExtDontHave) || (sub =? ExtUploadOnly).
Theorem rt_ext_unknown sub : known_sub sub = false -> rt (ExtendedUnknown sub).
Proof.
  unfold known_sub. intros H rest. repeat (apply orb_false_iff in H; destruct H as [H ?]). exists 0. cbn [norm encode_spec].
  rewrite ext_frame_decode by (cbn; unfold max_frame; lia). rewrite ext_frame_len. cbn [len length app]. 
  unfold decode_body. change (20 =? 0) with false. cbv iota.
  repeat match goal with |- context [20 =? ?x] => let v := eval vm_compute in (20 =? x) in change (20 =? x) with v; cbv iota end.
  repeat match goal with Hx : (sub =? ?c) = false |- _ => rewrite Hx; clear Hx end.
  change (len []) with 0. change (2 + 0 <? 2) with false. change (2 + 0 - 2) with 0. cbv iota.
  change (take 0 rest) with (take (len []) ([] ++ rest)). rewrite take_exact. reflexivity.
Qed.

Definition known_type (t : N) : bool :=
  (t <=? 9) || ((13 <=? t) && (t <=? 17)) || (t =? 20).
Theorem rt_unknown t : known_type t = false -> rt (Unknown t).
Proof.
  unfold known_type. intros H rest. exists 0. cbn [norm encode_spec].
  rewrite decode_frame by (cbn; unfold max_frame; lia). rewrite frame_len. cbn [len length app].
  unfold decode_body.
  repeat match goal with |- context [t =? ?c] => replace (t =? c) with false by lia end.
  change (len []) with 0. change (1 + 0 - 1) with 0. change (take 0 rest) with (take (len []) ([] ++ rest)). rewrite take_exact. reflexivity.
Qed.

(* ---------- ut_pex ---------- *)
Definition pex_ok (l : N) (p : peer) : Prop := len (p_ip p) = l /\ p_port p < 65536.

Lemma be16_enc16 v : v < 65536 -> be16 ((v / 256) mod 256) (v mod 256) = v.
Proof. intros H. unfold be16. lia. Qed.

Lemma parse_compact_nil l fuel flags : parse_compact fuel l [] flags = [].
Proof.
  destruct fuel; [reflexivity|]. cbn [parse_compact]. unfold take.
  replace (l + 2 <=? len []) with false by (change (len []) with 0; lia). reflexivity.
Qed.

Lemma parse_compact_cons l p r fuel flags : pex_ok l p ->
  parse_compact (S fuel) l (compact_of (p :: r)) flags =
  {| p_ip := p_ip p; p_port := p_port p; p_flags := match flags with x :: _ => x | [] => 0 end |}
  :: parse_compact fuel l (compact_of r) (tl flags).
Proof.
  intros [Hl Hp]. subst l. cbn [compact_of flat_map parse_compact]. fold (compact_of r).
  replace (len (p_ip p) + 2) with (len (p_ip p ++ enc16 (p_port p))) by (rewrite len_app, enc16_len; lia).
  rewrite take_exact. unfold len. rewrite Nat2N.id, firstn_app, Nat.sub_diag, firstn_all, skipn_app, Nat.sub_diag, skipn_all.
  cbn [firstn skipn app]. rewrite app_nil_r. unfold enc16. now rewrite be16_enc16 by exact Hp.
Qed.

Lemma parse_compact_flags l : forall ps fuel, Forall (pex_ok l) ps -> (length ps <= fuel)%nat ->
  parse_compact fuel l (compact_of ps) (flags_of ps) = ps.
Proof.
  induction ps as [|p r IH]; intros fuel Hps Hf; [apply parse_compact_nil|].
  inversion Hps as [|? ? Hp Hr]; subst. destruct fuel as [|fuel]; [cbn in Hf; lia|].
  rewrite (parse_compact_cons l p r fuel _ Hp). cbn [flags_of map tl]. fold (flags_of r).
  rewrite IH by (auto; cbn [length] in Hf; lia). now destruct p.
Qed.
Lemma parse_compact_noflags l : forall ps fuel, Forall (pex_ok l) ps -> (length ps <= fuel)%nat ->
  parse_compact fuel l (compact_of ps) [] = map clear_flags ps.
Proof.
  induction ps as [|p r IH]; intros fuel Hps Hf; [apply parse_compact_nil|].
  inversion Hps as [|? ? Hp Hr]; subst. destruct fuel as [|fuel]; [cbn in Hf; lia|].
  rewrite (parse_compact_cons l p r fuel _ Hp). cbn [tl map]. rewrite IH by (auto; cbn [length] in Hf; lia). reflexivity.
Qed.

Lemma compact_of_len l ps : Forall (pex_ok l) ps -> len (compact_of ps) = N.of_nat (length ps) * (l + 2).
Proof.
  induction 1 as [|p r [Hl Hp] _ IH]; [reflexivity|]. cbn [compact_of flat_map length]. fold (compact_of r).
  rewrite !len_app, enc16_len, IH, Hl. lia.
Qed.

Lemma compact_flags l ps : Forall (pex_ok l) ps -> compact l (Some (compact_of ps)) (flags_of ps) = ps.
Proof.
  intros H. unfold compact. rewrite (compact_of_len l ps H). replace (N.of_nat (length ps) * (l + 2) mod (l + 2) =? 0) with true by (symmetry; apply N.eqb_eq, N.mod_mul; lia).
  apply parse_compact_flags; [exact H|]. pose proof (compact_of_len l ps H) as L. unfold len in L. nia.
Qed.
Lemma compact_noflags l ps : Forall (pex_ok l) ps -> compact l (Some (compact_of ps)) [] = map clear_flags ps.
Proof.
  intros H. unfold compact. rewrite (compact_of_len l ps H). replace (N.of_nat (length ps) * (l + 2) mod (l + 2) =? 0) with true by (symmetry; apply N.eqb_eq, N.mod_mul; lia).
  apply parse_compact_noflags; [exact H|]. pose proof (compact_of_len l ps H) as L. unfold len in L. nia.
Qed.

Lemma dict_bounds es B : len (benc_dict (map ekv es)) <= B -> Forall (fun e => len (en_enc e) <= B) es.
Proof.
  induction es as [|e r IH]; intros H; [constructor|]. cbn [map] in H. unfold ekv at 1 in H. cbn [benc_dict] in H.
  rewrite !len_app in H. constructor; [lia|apply IH; lia].
Qed.
Lemma benc_str_len s : len s <= len (benc_str s).
Proof. unfold benc_str. rewrite len_app, len_cons. lia. Qed.

Definition is_se (e : entry) : Prop := exists k s, e = se k s /\ len (ascii_bytes k) < 2147483648.
Lemma good_se_bounded f es B : B < 2147483648 -> Forall is_se es ->
  len (benc_dict (map ekv es)) <= B -> Forall (good_entry (S f)) es.
Proof.
  intros HB Hs Hl. apply dict_bounds in Hl. rewrite Forall_forall in *. intros e He.
  destruct (Hs e He) as (k & s & -> & Hk). specialize (Hl _ He). cbn [se en_enc] in Hl.
  apply good_se; [exact Hk|]. pose proof (benc_str_len s). lia.
Qed.
Lemma is_se_oent b k s : len (ascii_bytes k) < 2147483648 -> Forall is_se (oent b (se k s)).
Proof. intros H. destruct b; cbn [oent]; repeat constructor. exists k, s. auto. Qed.

Definition pex_entries (added dropped : list peer) : list entry :=
  let a4 := filter is_v4 added in let a6 := filter (fun p => negb (is_v4 p)) added in
  let d4 := filter is_v4 dropped in let d6 := filter (fun p => negb (is_v4 p)) dropped in
  oent (nonempty a4) (se "added" (compact_of a4)) ++
  oent (nonempty a4) (se "added.f" (flags_of a4)) ++
  oent (nonempty a6) (se "added6" (compact_of a6)) ++
  oent (nonempty a6) (se "added6.f" (flags_of a6)) ++
  oent (nonempty d4) (se "dropped" (compact_of d4)) ++
  oent (nonempty d6) (se "dropped6" (compact_of d6)).

Definition wf_pex_peer (p : peer) : Prop := (len (p_ip p) = 4 \/ len (p_ip p) = 16) /\ p_port p < 65536.

Lemma split_v4 ps : Forall wf_pex_peer ps ->
  Forall (pex_ok 4) (filter is_v4 ps) /\ Forall (pex_ok 16) (filter (fun p => negb (is_v4 p)) ps).
Proof.
  induction 1 as [|p r [Hl Hp] _ [IH4 IH6]]; [split; constructor|]. cbn [filter].
  assert (Ev : is_v4 p = (len (p_ip p) =? 4)) by reflexivity. rewrite !Ev.
  destruct (len (p_ip p) =? 4) eqn:E; cbn [negb]; split; auto; constructor; auto; split; auto; lia.
Qed.

Lemma nonempty_false {A} (l : list A) : nonempty l = false -> l = [].
Proof. destruct l; [reflexivity|discriminate]. Qed.

Theorem rt_pex added dropped :
  Forall wf_pex_peer added -> Forall wf_pex_peer dropped ->
  len (encode_spec (ExtendedPex ExtPex added dropped)) <= 4 + max_frame ->
  rt (ExtendedPex ExtPex added dropped).
Proof.
  intros Ha Hd Hlen rest. cbn [norm encode_spec] in *. cbv zeta in *.
  destruct (split_v4 added Ha) as [Ha4 Ha6]. destruct (split_v4 dropped Hd) as [Hd4 Hd6].
  set (a4 := filter is_v4 added) in *. set (a6 := filter (fun p => negb (is_v4 p)) added) in *.
  set (d4 := filter is_v4 dropped) in *. set (d6 := filter (fun p => negb (is_v4 p)) dropped) in *.
  set (es := pex_entries added dropped).
  match type of Hlen with len (ext_frame _ (benc_d ?kvs)) <= _ => assert (Ekv : kvs = map ekv es) end.
  { subst es. unfold pex_entries. cbv zeta. fold a4 a6 d4 d6. rewrite !map_app. unfold ent, oent, ekv, se. cbn [map en_key en_enc].
    destruct (nonempty a4), (nonempty a6), (nonempty d4), (nonempty d6); reflexivity. }
  rewrite Ekv in *. set (P := benc_d (map ekv es)) in *.
  rewrite ext_frame_len in Hlen. rewrite ext_frame_decode by lia.
  unfold decode_body. change (20 =? 0) with false. cbv iota.
  repeat match goal with |- context [20 =? ?x] => let v := eval vm_compute in (20 =? x) in change (20 =? x) with v; cbv iota end.
  replace (2 + len P <? 2) with false by lia. unfold ExtPex at 1 2. change (1 =? 0) with false. change (1 =? 1) with true. cbv iota.
  replace (2 + len P - 2) with (len P) by lia. rewrite take_exact.
  assert (Hes : forall f, Forall (good_entry (S f)) es).
  { intros f. apply (good_se_bounded f es max_frame); [unfold max_frame; lia| |].
    - subst es. unfold pex_entries. cbv zeta. repeat (apply Forall_app; split); apply is_se_oent; key_ok.
    - unfold P, benc_d in Hlen. rewrite len_cons, len_app, len_cons, len_nil in Hlen. lia. }
  assert (Hdep : vdepth (BDict (map evv es)) <= max_bencode_depth).
  { eapply N.le_trans; [apply (vdepth_dict_le es 0)|unfold max_bencode_depth; lia].
    subst es. unfold pex_entries. cbv zeta. repeat (apply Forall_app; split); apply oent_depth; cbn; lia. }
  unfold P at 1. rewrite <- (app_nil_r (benc_d (map ekv es))), (lim_ok _ _ _ _ (bdecode_entries es [] Hes) Hdep).
  exists (ecost es 0 + 2 * len P). rewrite ext_frame_len. fold P.
  assert (Hm : decode_pex (BDict (map evv es)) = Some (a4 ++ a6, map clear_flags (d4 ++ d6))).
  { subst es. unfold pex_entries, decode_pex. cbv zeta. fold a4 a6 d4 d6. unfold oent, evv, se.
    destruct (nonempty a4) eqn:N1, (nonempty a6) eqn:N2, (nonempty d4) eqn:N3, (nonempty d6) eqn:N4;
      cbn [app map en_key en_val fold_opt]; unfold pex_field; eval_keys; cbn [as_bytes_field is_list];
      cbn [x_added x_addedf x_added6 x_added6f x_dropped x_dropped6 pexraw_zero];
      try (apply nonempty_false in N1; rewrite N1); try (apply nonempty_false in N2; rewrite N2);
      try (apply nonempty_false in N3; rewrite N3); try (apply nonempty_false in N4; rewrite N4);
      rewrite ?(compact_flags 4 a4 Ha4), ?(compact_flags 16 a6 Ha6), ?(compact_noflags 4 d4 Hd4), ?(compact_noflags 16 d6 Hd6);
      cbn [compact app map]; rewrite ?app_nil_r, ?map_app; reflexivity. }
  rewrite Hm. unfold norm_peers. fold a4 a6 d4 d6. replace (4 + (2 + len P)) with (6 + len P) by lia. reflexivity.
Qed.

(* ---------- the extended handshake ---------- *)
Lemma good_entry_mono f f' e : (f <= f')%nat -> good_entry f e -> good_entry f' e.
Proof. intros Hf [H1 H2]. split; [exact H1|eapply good_mono; eauto]. Qed.

Lemma bdecode_entries_fuel es tail f0 :
  Forall (good_entry f0) es -> (f0 <= length (benc_d (map ekv es) ++ tail))%nat ->
  bdecode (benc_d (map ekv es) ++ tail) = BOk (BDict (map evv es)) tail (ecost es 0).
Proof.
  intros Hes Hf. unfold bdecode. set (n := length (benc_d (map ekv es) ++ tail)) in *.
  assert (Hn : (length es + 2 <= n)%nat).
  { subst n. rewrite app_length. pose proof (benc_d_length (map ekv es)) as L. rewrite map_length in L. lia. }
  apply bparse_dict; [|lia]. eapply Forall_impl; [|exact Hes]. intros e He. eapply good_entry_mono; [|exact He]. exact Hf.
Qed.

Definition ment (kv : bytes * N) : entry := mk_entry (fst kv) (benc_int (snd kv)) (BInt (dec (snd kv))) 0.
Definition me (l : list (bytes * N)) : entry :=
  mk_entry (ascii_bytes "m") (benc_d (map ekv (map ment l))) (BDict (map evv (map ment l))) (ecost (map ment l) 0).

Definition wf_msgs (l : list (bytes * N)) : Prop := Forall (fun kv => snd kv < 256 /\ len (fst kv) < 2147483648) l.

Lemma good_me l : wf_msgs l -> good_entry (S (S (length l))) (me l).
Proof.
  intros H. split; [key_ok|]. unfold me. cbn [en_enc en_val en_cost]. apply good_dict; [|rewrite map_length; lia].
  apply Forall_forall. intros e He. apply in_map_iff in He as [kv [<- Hkv]]. unfold wf_msgs in H. rewrite Forall_forall in H. destruct (H kv Hkv) as [Hv Hk].
  split; [exact Hk|]. cbn [ment en_enc en_val en_cost]. apply good_int. apply small_dec. lia.
Qed.

Lemma as_msgmap_ments l : wf_msgs l -> as_msgmap (map evv (map ment l)) = Some l.
Proof.
  induction 1 as [|[k v] r [Hv _] _ IH]; [reflexivity|]. cbn [map]. unfold evv at 1, ment at 1. cbn [en_key en_val fst snd as_msgmap].
  cbn [snd] in Hv. change (en_val (ment (k, v))) with (BInt (dec v)). rewrite (as_uint_dec 8 v) by (change (2 ^ 8) with 256; lia). now rewrite IH.
Qed.

Definition odflt (o : option bytes) : bytes := match o with Some a => a | None => [] end.
Definition is_some (o : option bytes) : bool := match o with Some _ => true | None => false end.

Definition ext0_entries (e : ext0) : list entry :=
  oent (e_encrypt e) (ie "e" 1) ++
  oent (is_some (e_ipv4 e)) (se "ipv4" (odflt (e_ipv4 e))) ++
  oent (is_some (e_ipv6 e)) (se "ipv6" (odflt (e_ipv6 e))) ++
  oent (nonempty (e_messages e)) (me (sort_kvs (e_messages e))) ++
  oent (negb (e_metadata_size e =? 0)) (ie "metadata_size" (e_metadata_size e)) ++
  oent (negb (e_port e =? 0)) (ie "p" (e_port e)) ++
  oent (negb (e_reqq e =? 0)) (ie "reqq" (e_reqq e)) ++
  oent true (ie "upload_only" (if e_upload_only e then 1 else 0)) ++
  oent (nonempty (e_version e)) (se "v" (e_version e)).

Record wf_ext0 (e : ext0) : Prop := {
  w_port : e_port e < 65536;
  w_reqq : e_reqq e < 4294967296;
  w_msize : e_metadata_size e < 4294967296;
  w_ipv4 : match e_ipv4 e with Some a => len a = 4 | None => True end;
  w_ipv6 : match e_ipv6 e with Some a => len a = 16 | None => True end;
  w_msgs : wf_msgs (e_messages e);
  w_sorted : sort_kvs (e_messages e) = e_messages e;      (* keys sorted and distinct, as bencoding requires *)
  w_version : len (e_version e) < 2147483648
}.

(* the record the decoder has built after the first i entries *)
Definition raw_upto (i : nat) (e : ext0) : ext0raw :=
  {| r_enc := if (1 <=? i)%nat then e_encrypt e else false;
     r_ipv4 := if (2 <=? i)%nat then odflt (e_ipv4 e) else [];
     r_ipv6 := if (3 <=? i)%nat then odflt (e_ipv6 e) else [];
     r_messages := if (4 <=? i)%nat then e_messages e else [];
     r_msize := if (5 <=? i)%nat then e_metadata_size e else 0;
     r_port := if (6 <=? i)%nat then e_port e else 0;
     r_reqq := if (7 <=? i)%nat then e_reqq e else 0;
     r_uo := if (8 <=? i)%nat then e_upload_only e else false;
     r_version := if (9 <=? i)%nat then e_version e else [] |}.

Lemma fold_opt_app {A B} (f : A -> B -> option A) l1 : forall a l2,
  fold_opt f a (l1 ++ l2) = match fold_opt f a l1 with Some a' => fold_opt f a' l2 | None => None end.
Proof. induction l1 as [|x r IH]; intros a l2; cbn [app fold_opt]; [reflexivity|]. destruct (f a x); [apply IH|reflexivity]. Qed.

Ltac step_tac := unfold raw_upto; cbn [Nat.leb oent map fold_opt]; unfold evv, ie, se, me; cbn [en_key en_val]; unfold ext0_field; eval_keys; cbn [as_bytes_field is_list].

Lemma fold_chain {A B} (f : A -> B -> option A) a l1 l2 a1 :
  fold_opt f a l1 = Some a1 -> fold_opt f a (l1 ++ l2) = fold_opt f a1 l2.
Proof. intros H. now rewrite fold_opt_app, H. Qed.

Section Steps.
  Variable e : ext0.
  Hypothesis W : wf_ext0 e.
  Notation step i l := (fold_opt ext0_field (raw_upto i e) (map evv l) = Some (raw_upto (S i) e)).

  Lemma step1 : step 0 (oent (e_encrypt e) (ie "e" 1)).
  Proof.
    destruct (e_encrypt e) eqn:E; step_tac; [|now rewrite E].
    unfold as_bool_or_string. rewrite (parse_uint64_dec 1) by lia. now rewrite E.
  Qed.
  Lemma step2 : step 1 (oent (is_some (e_ipv4 e)) (se "ipv4" (odflt (e_ipv4 e)))).
  Proof. destruct (e_ipv4 e) eqn:E; cbn [is_some odflt]; step_tac; now rewrite E. Qed.
  Lemma step3 : step 2 (oent (is_some (e_ipv6 e)) (se "ipv6" (odflt (e_ipv6 e)))).
  Proof. destruct (e_ipv6 e) eqn:E; cbn [is_some odflt]; step_tac; now rewrite E. Qed.
  Lemma step4 : step 3 (oent (nonempty (e_messages e)) (me (sort_kvs (e_messages e)))).
  Proof.
    rewrite (w_sorted e W). pose proof (w_msgs e W) as Hms. destruct (e_messages e) as [|p l] eqn:E; cbn [nonempty]; [step_tac; now rewrite E|].
    remember (p :: l) as L eqn:EL. step_tac. rewrite (as_msgmap_ments L Hms). now rewrite E.
  Qed.
  Lemma step5 : step 4 (oent (negb (e_metadata_size e =? 0)) (ie "metadata_size" (e_metadata_size e))).
  Proof.
    pose proof (w_msize e W). destruct (e_metadata_size e =? 0) eqn:E; cbn [negb]; step_tac; [apply N.eqb_eq in E; now rewrite E|].
    rewrite (as_uint_dec 32) by (change (2 ^ 32) with 4294967296; lia). reflexivity.
  Qed.
  Lemma step6 : step 5 (oent (negb (e_port e =? 0)) (ie "p" (e_port e))).
  Proof.
    pose proof (w_port e W). destruct (e_port e =? 0) eqn:E; cbn [negb]; step_tac; [apply N.eqb_eq in E; now rewrite E|].
    rewrite (as_uint_dec 16) by (change (2 ^ 16) with 65536; lia). reflexivity.
  Qed.
  Lemma step7 : step 6 (oent (negb (e_reqq e =? 0)) (ie "reqq" (e_reqq e))).
  Proof.
    pose proof (w_reqq e W). destruct (e_reqq e =? 0) eqn:E; cbn [negb]; step_tac; [apply N.eqb_eq in E; now rewrite E|].
    rewrite (as_uint_dec 32) by (change (2 ^ 32) with 4294967296; lia). reflexivity.
  Qed.
  Lemma step8 : step 7 (oent true (ie "upload_only" (if e_upload_only e then 1 else 0))).
  Proof.
    step_tac. unfold as_bool_or_string. destruct (e_upload_only e); [rewrite (parse_uint64_dec 1) by lia|rewrite (parse_uint64_dec 0) by lia]; reflexivity.
  Qed.
  Lemma step9 : step 8 (oent (nonempty (e_version e)) (se "v" (e_version e))).
  Proof. destruct (e_version e) eqn:E; cbn [nonempty]; step_tac; now rewrite E. Qed.

  Lemma ext0_steps : fold_opt ext0_field ext0raw_zero (map evv (ext0_entries e)) = Some (raw_upto 9 e).
  Proof.
    unfold ext0_entries. change ext0raw_zero with (raw_upto 0 e). rewrite !map_app.
    rewrite (fold_chain _ _ _ _ _ step1), (fold_chain _ _ _ _ _ step2), (fold_chain _ _ _ _ _ step3), (fold_chain _ _ _ _ _ step4),
            (fold_chain _ _ _ _ _ step5), (fold_chain _ _ _ _ _ step6), (fold_chain _ _ _ _ _ step7), (fold_chain _ _ _ _ _ step8).
    exact step9.
  Qed.

  Lemma raw_final : ext0_of_raw (raw_upto 9 e) = e.
  Proof.
    unfold ext0_of_raw, raw_upto. cbn [Nat.leb r_version r_port r_reqq r_ipv4 r_ipv6 r_msize r_messages r_uo r_enc].
    pose proof (w_ipv4 e W) as H4. pose proof (w_ipv6 e W) as H6. destruct e as [v p q i4 i6 ms m uo en]. cbn in *. f_equal.
    - destruct i4 as [a|]; cbn [odflt]; [now rewrite H4|reflexivity].
    - destruct i6 as [a|]; cbn [odflt]; [now rewrite H6|reflexivity].
  Qed.
End Steps.

Lemma ments_kvs l : map ekv (map ment l) = map (fun kv : bytes * N => (fst kv, benc_int (snd kv))) l.
Proof. rewrite map_map. reflexivity. Qed.

Lemma ext0_kvs e :
  ent (e_encrypt e) "e" (benc_bool true) ++
  ent (match e_ipv4 e with Some _ => true | None => false end) "ipv4"
      (benc_str (match e_ipv4 e with Some a => a | None => [] end)) ++
  ent (match e_ipv6 e with Some _ => true | None => false end) "ipv6"
      (benc_str (match e_ipv6 e with Some a => a | None => [] end)) ++
  ent (match e_messages e with [] => false | _ => true end) "m"
      (benc_d (map (fun kv => (fst kv, benc_int (snd kv))) (sort_kvs (e_messages e)))) ++
  ent (negb (e_metadata_size e =? 0)) "metadata_size" (benc_int (e_metadata_size e)) ++
  ent (negb (e_port e =? 0)) "p" (benc_int (e_port e)) ++
  ent (negb (e_reqq e =? 0)) "reqq" (benc_int (e_reqq e)) ++
  ent true "upload_only" (benc_bool (e_upload_only e)) ++
  ent (nonempty (e_version e)) "v" (benc_str (e_version e)) = map ekv (ext0_entries e).
Proof.
  unfold ext0_entries. rewrite !map_app.
  repeat match goal with |- _ ++ _ = _ ++ _ => apply f_equal2 end.
  - destruct (e_encrypt e); reflexivity.
  - destruct (e_ipv4 e); reflexivity.
  - destruct (e_ipv6 e); reflexivity.
  - rewrite <- ments_kvs. destruct (e_messages e); reflexivity.
  - destruct (negb _); reflexivity.
  - destruct (negb _); reflexivity.
  - destruct (negb _); reflexivity.
  - reflexivity.
  - destruct (nonempty _); reflexivity.
Qed.

Lemma ext0_entries_good e : wf_ext0 e ->
  Forall (good_entry (S (S (length (sort_kvs (e_messages e)))))) (ext0_entries e).
Proof.
  intros W. unfold ext0_entries. repeat (apply Forall_app; split); apply good_oent.
  - apply good_ie; [key_ok|apply small_dec; lia].
  - apply good_se; [key_ok|]. pose proof (w_ipv4 e W). destruct (e_ipv4 e); cbn [odflt]; [lia|reflexivity].
  - apply good_se; [key_ok|]. pose proof (w_ipv6 e W). destruct (e_ipv6 e); cbn [odflt]; [lia|reflexivity].
  - apply good_me. rewrite (w_sorted e W). exact (w_msgs e W).
  - apply good_ie; [key_ok|apply small_dec; exact (w_msize e W)].
  - apply good_ie; [key_ok|apply small_dec; pose proof (w_port e W); lia].
  - apply good_ie; [key_ok|apply small_dec; exact (w_reqq e W)].
  - apply good_ie; [key_ok|apply small_dec; destruct (e_upload_only e); lia].
  - apply good_se; [key_ok|exact (w_version e W)].
Qed.

Lemma ext0_fuel e :
  (S (S (length (sort_kvs (e_messages e)))) <= length (benc_d (map ekv (ext0_entries e))))%nat.
Proof.
  destruct (e_messages e) as [|p l] eqn:E.
  - cbn [sort_kvs fold_right length]. pose proof (benc_d_length (map ekv (ext0_entries e))). lia.
  - assert (Hin : In (me (sort_kvs (e_messages e))) (ext0_entries e)).
    { unfold ext0_entries. rewrite E. cbn [nonempty oent]. do 3 (apply in_or_app; right). apply in_or_app. left. now left. }
    pose proof (dict_bounds (ext0_entries e) _ (N.le_refl _)) as B. rewrite Forall_forall in B. specialize (B _ Hin).
    cbn [me en_enc] in B. rewrite <- E.
    pose proof (benc_d_length (map ekv (map ment (sort_kvs (e_messages e))))) as L. rewrite !map_length in L.
    assert (L2 : (length (benc_dict (map ekv (ext0_entries e))) <= length (benc_d (map ekv (ext0_entries e))))%nat)
      by (unfold benc_d; cbn [length]; rewrite app_length; lia).
    unfold len in B. lia.
Qed.

Theorem rt_ext0 e :
  wf_ext0 e -> len (encode_spec (Extended0 e)) <= 4 + max_frame -> rt (Extended0 e).
Proof.
  intros W Hlen rest. cbn [norm encode_spec] in *. rewrite ext0_kvs in *.
  set (es := ext0_entries e) in *. set (P := benc_d (map ekv es)) in *.
  rewrite ext_frame_len in Hlen. rewrite ext_frame_decode by lia.
  unfold decode_body. change (20 =? 0) with false. cbv iota.
  repeat match goal with |- context [20 =? ?x] => let v := eval vm_compute in (20 =? x) in change (20 =? x) with v; cbv iota end.
  replace (2 + len P <? 2) with false by lia. change (0 =? 0) with true. cbv iota.
  replace (2 + len P - 2) with (len P) by lia. rewrite take_exact.
  unfold P at 1. rewrite <- (app_nil_r (benc_d (map ekv es))).
  assert (Hdep : vdepth (BDict (map evv es)) <= max_bencode_depth).
  { eapply N.le_trans; [apply (vdepth_dict_le es 1)|unfold max_bencode_depth; lia].
    subst es. unfold ext0_entries. repeat (apply Forall_app; split); apply oent_depth; try (cbn; lia).
    unfold me. cbn [en_val]. apply (vdepth_dict_le _ 0). apply Forall_forall. intros x Hx. apply in_map_iff in Hx as [kv [<- _]]. cbn. lia. }
  rewrite (lim_ok _ _ _ _ (bdecode_entries_fuel es [] _ (ext0_entries_good e W) ltac:(rewrite app_nil_r; apply ext0_fuel)) Hdep).
  unfold decode_ext0. subst es. rewrite (ext0_steps e W), (raw_final e W).
  exists (ecost (ext0_entries e) 0 + len P). rewrite ext_frame_len. fold P.
  replace (4 + (2 + len P)) with (6 + len P) by lia. reflexivity.
Qed.

(* ---------- every message ---------- *)
Definition fits (m : msg) : Prop := len (encode_spec m) <= 4 + max_frame.

(* the messages of the protocol with every field in range *)
Definition emit_ok (m : msg) : Prop :=
  match m with
  | Extended0 e => wf_ext0 e /\ fits m
  | ExtendedPex sub added dropped => sub = ExtPex /\ Forall wf_pex_peer added /\ Forall wf_pex_peer dropped /\ fits m
  | ExtendedMetadata sub tpe piece total d =>
      sub = ExtMetadata /\ tpe < 256 /\ piece < 4294967296 /\ total < 4294967296 /\ fits m
  | ExtendedUploadOnly sub _ => sub = ExtUploadOnly
  | ExtendedUnknown sub => known_sub sub = false
  | Unknown t => known_type t = false
  | _ => fixed_width m = true
  end.

Theorem rt_all m : emit_ok m -> rt m.
Proof.
  destruct m; cbn [emit_ok]; try (apply rt_fixed).
  - intros [W F]. now apply rt_ext0.
  - intros (-> & Ha & Hd & F). now apply rt_pex.
  - intros (-> & Ht & Hp & Hto & F). now apply rt_metadata.
  - intros ->. apply rt_upload_only.
  - apply rt_ext_unknown.
  - apply rt_unknown.
Qed.

Theorem stream_all ms : Forall emit_ok ms ->
  let w := concat (map encode_spec ms) in decode_stream (S (length w)) w = (map norm ms, None).
Proof. intros H. apply decode_stream_whole. eapply Forall_impl; [|exact H]. exact rt_all. Qed.

(* the hypotheses are satisfiable by a handshake that uses every optional field *)
Example ext0_example :
  let e := {| e_version := ascii_bytes "storrent 0.0"; e_port := 6881; e_reqq := 250;
              e_ipv4 := Some [192; 0; 2; 1]; e_ipv6 := None; e_metadata_size := 31337;
              e_messages := [(ascii_bytes "lt_donthave", 3); (ascii_bytes "ut_metadata", 2); (ascii_bytes "ut_pex", 1)];
              e_upload_only := true; e_encrypt := true |} in
  emit_ok (Extended0 e).
Proof.
  cbn zeta. split.
  - split; cbn [e_port e_reqq e_metadata_size e_ipv4 e_ipv6 e_messages e_version].
    + vm_compute; reflexivity.
    + vm_compute; reflexivity.
    + vm_compute; reflexivity.
    + vm_compute; reflexivity.
    + exact I.
    + repeat constructor; vm_compute; reflexivity.
    + vm_compute; reflexivity.
    + vm_compute; reflexivity.
  - unfold fits. vm_compute. discriminate.
Qed.
