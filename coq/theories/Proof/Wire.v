(* Proof/Wire.v — lemmas about Model/Wire.v (protocol.Read). *)
From Coq Require Import ZifyBool ZifyN ZifyNat String.
From Storrent Require Import Base.Bytes Base.Bencode Gen.Consts Model.Wire Proof.Bencode.
Open Scope N_scope.

Ltac Zify.zify_post_hook ::= Z.div_mod_to_equations.

(* split every if / match on an opaque scrutinee in the goal or in hypothesis H *)
Ltac break_in H :=
  repeat match type of H with
  | context [if ?c then _ else _] => destruct c eqn:?
  | context [match ?x with _ => _ end] => destruct x eqn:?
  end.

Ltac facts :=
  repeat match goal with
  | H : read32 _ = Some (_, _) |- _ => apply read32_len in H
  | H : read16 _ = Some (_, _) |- _ => apply read16_len in H
  | H : take _ _ = Some (_, _) |- _ => apply take_len in H; destruct H as (? & ? & ?)
  | H : take _ _ = Some ?p |- _ => destruct p
  | H : read32 _ = None |- _ => apply read32_none in H
  | H : read16 _ = None |- _ => apply read16_none in H
  | H : take _ _ = None |- _ => apply take_none in H
  end.

Lemma decode_body_no_nilnil l t r n : decode_body l t r <> DNilNil n.
Proof.
  unfold decode_body. intros H. break_in H; discriminate.
Qed.

Lemma decode_no_nilnil bs n : decode bs <> DNilNil n.
Proof.
  unfold decode. intros H.
  destruct (read32 bs) as [[l r]|]; [|discriminate].
  destruct (l =? 0); [discriminate|].
  destruct (max_frame <? l); [discriminate|].
  destruct r as [|t r1]; [discriminate|].
  now apply decode_body_no_nilnil in H.
Qed.

(* ---- exact framing of successful decodes ---- *)

Local Opaque N.add N.sub N.mul.

Lemma decode_body_exact l t r m n a :
  l <> 0 -> l <= max_frame ->
  decode_body l t r = DMsg m n a -> n = 4 + l /\ n <= 5 + len r.
Proof.
  unfold decode_body, ExtPex, ExtMetadata, ExtDontHave, ExtUploadOnly. intros Hl0 Hmax H.
  break_in H; try discriminate; injection H as <- <- <-; facts;
    repeat rewrite ?len_cons in *; subst; try lia.
Qed.

Lemma decode_exact bs m n a :
  decode bs = DMsg m n a ->
  exists l, announced bs = Some l /\ n = 4 + l /\ n <= len bs /\ l <= max_frame.
Proof.
  unfold decode, announced. intros H.
  destruct (read32 bs) as [[l r]|] eqn:E; [|discriminate].
  exists l. split; [reflexivity|].
  apply read32_len in E.
  destruct (l =? 0) eqn:E0.
  - injection H as <- <- <-. unfold max_frame. lia.
  - destruct (max_frame <? l) eqn:E1; [discriminate|].
    destruct r as [|t r1]; [discriminate|].
    apply decode_body_exact in H; [|lia|lia].
    rewrite len_cons in E. lia.
Qed.

(* ---- errors never consume past the frame ---- *)

Lemma decode_body_err l t r e n a :
  l <> 0 -> decode_body l t r = DErr e n a -> n <= 4 + l /\ n <= 5 + len r.
Proof.
  unfold decode_body, ExtPex, ExtMetadata, ExtDontHave, ExtUploadOnly. intros Hl0 H.
  break_in H; try discriminate; injection H as <- <- <-; facts;
    repeat rewrite ?len_cons in *; subst; try lia.
Qed.

Lemma decode_err_bound bs e n a :
  decode bs = DErr e n a ->
  n <= len bs /\ forall l, announced bs = Some l -> n <= 4 + l.
Proof.
  unfold decode, announced. intros H.
  destruct (read32 bs) as [[l r]|] eqn:E.
  - apply read32_len in E.
    destruct (l =? 0) eqn:E0; [discriminate|].
    destruct (max_frame <? l) eqn:E1.
    + injection H as <- <- <-. split; [lia|]. intros l' [= <-]. lia.
    + destruct r as [|t r1].
      * injection H as <- <- <-. rewrite len_nil in E. split; [lia|]. intros l' [= <-]. lia.
      * apply decode_body_err in H; [|lia]. rewrite len_cons in E.
        split; [lia|]. intros l' [= <-]. lia.
  - injection H as <- <- <-. split; [lia|]. intros l' [=].
Qed.

(* ---- a successful decode never looks past its frame ---- *)

Ltac use_app tail :=
  repeat match goal with
  | H : read32 ?r = Some _ |- context [read32 (?r ++ tail)] => rewrite (read32_app _ _ _ tail H)
  | H : read16 ?r = Some _ |- context [read16 (?r ++ tail)] => rewrite (read16_app _ _ _ tail H)
  | H : take ?n ?r = Some _ |- context [take ?n (?r ++ tail)] => rewrite (take_app _ _ _ _ tail H)
  end.

Lemma decode_body_app l t r tail m n a :
  decode_body l t r = DMsg m n a -> decode_body l t (r ++ tail) = DMsg m n a.
Proof.
  unfold decode_body. intros H.
  break_in H; try discriminate; subst;
    repeat match goal with Hp : take _ _ = Some ?p |- _ => is_var p; destruct p end;
    repeat (cbn [app]; use_app tail;
            match goal with
            | H : ?c = _ |- context [if ?c then _ else _] => rewrite H
            | H : ?c = _ |- context [match ?c with _ => _ end] => rewrite H
            end); cbn [app]; use_app tail; try assumption; try reflexivity.
Qed.

Lemma decode_app bs tail m n a :
  decode bs = DMsg m n a -> decode (bs ++ tail) = DMsg m n a.
Proof.
  unfold decode. intros H.
  destruct (read32 bs) as [[l r]|] eqn:E; [|discriminate].
  rewrite (read32_app _ _ _ tail E).
  destruct (l =? 0); [assumption|].
  destruct (max_frame <? l); [discriminate|].
  destruct r as [|t r1]; [discriminate|].
  change ((t :: r1) ++ tail) with (t :: (r1 ++ tail)).
  now apply decode_body_app.
Qed.

(* ---- allocation ---- *)

Ltac bfacts :=
  repeat match goal with
  | H : bdecode_lim _ = BOk _ _ _ |- _ => apply bdecode_lim_ok in H; destruct H as [H _]
  end;
  repeat match goal with
  | H : bdecode _ = BOk _ _ _ |- _ => apply bdecode_ok in H
  end.

Lemma decode_body_alloc_msg l t r m n a :
  decode_body l t r = DMsg m n a -> a <= 3 * l.
Proof.
  unfold decode_body. intros H.
  break_in H; try discriminate; injection H as <- <- <-; bfacts; facts; subst; lia.
Qed.

Lemma decode_alloc_msg bs m n a :
  decode bs = DMsg m n a -> forall l, announced bs = Some l -> a <= 3 * l.
Proof.
  unfold decode, announced. intros H l' Ha.
  destruct (read32 bs) as [[l r]|] eqn:E; [|discriminate]. injection Ha as <-.
  destruct (l =? 0); [injection H as <- <- <-; lia|].
  destruct (max_frame <? l); [discriminate|].
  destruct r as [|t r1]; [discriminate|].
  now apply decode_body_alloc_msg in H.
Qed.

(* errors other than those raised inside the third-party bencode decoder *)
Lemma decode_body_alloc_err l t r e n a :
  decode_body l t r = DErr e n a -> e <> EBencode -> a <= 3 * l.
Proof.
  unfold decode_body. intros H He.
  break_in H; try discriminate; injection H as <- <- <-; try congruence; bfacts; facts; subst; lia.
Qed.

Lemma decode_alloc_err bs e n a :
  decode bs = DErr e n a -> e <> EBencode -> forall l, announced bs = Some l -> a <= 3 * l.
Proof.
  unfold decode, announced. intros H He l' Ha.
  destruct (read32 bs) as [[l r]|] eqn:E; [|discriminate]. injection Ha as <-.
  destruct (l =? 0); [discriminate|].
  destruct (max_frame <? l); [injection H as <- <- <-; lia|].
  destruct r as [|t r1]; [injection H as <- <- <-; lia|].
  now apply decode_body_alloc_err in H.
Qed.

(* frames above the cap are refused before anything is allocated *)
Lemma decode_toolong bs l : announced bs = Some l -> max_frame < l -> decode bs = DErr ETooLong 4 0.
Proof.
  unfold decode, announced. destruct (read32 bs) as [[l' r]|]; [|discriminate].
  intros [= ->] Hl. destruct (l =? 0) eqn:E0; [unfold max_frame in Hl; lia|].
  destruct (max_frame <? l) eqn:E1; [reflexivity|lia].
Qed.

(* ---- the one unbounded allocation: the bencode library allocates a declared
        string length before reading it (known finding C04-bencode-alloc) ---- *)
Definition witness_declared_long : bytes :=
  ([0;0;0;25; 20; 0] ++ ascii_bytes "d1:v2147483647:abce"%string)%list.

Lemma alloc_refuted_witness :
  exists e n a, announced witness_declared_long = Some 25 /\
                decode witness_declared_long = DErr e n a /\ 1000 * 25 < a.
Proof.
  exists EBencode, 25, 2147483671. vm_compute. repeat split.
Qed.

(* non-vacuity: concrete frames *)
Example ex_have : decode ([0;0;0;5;4; 0;0;1;2] ++ [9;9]) = DMsg (Have 258) 9 0.
Proof. vm_compute. reflexivity. Qed.
Example ex_ext_meta :
  decode ([0;0;0;29;20;2] ++ ascii_bytes "d8:msg_typei1e5:piecei3ee"%string ++ [7;7]) =
  DMsg (ExtendedMetadata 2 1 3 0 [7;7]) 33 67.
Proof. vm_compute. reflexivity. Qed.
Example ex_haveall_len2 : decode [0;0;0;2;14;0] = DErr EParse 5 0.
Proof. vm_compute. reflexivity. Qed.
Example ex_ext_len1 : decode [0;0;0;1;20;0;0;0;1;1] = DErr EParse 5 0.
Proof. vm_compute. reflexivity. Qed.
