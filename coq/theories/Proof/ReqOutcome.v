(* Proof/ReqOutcome.v — what becomes of a Request from the remote peer. *)
From Coq Require Import ZifyBool ZifyN ZifyNat.
From Storrent Require Import Base.Bytes Base.Bencode Gen.Consts Model.Wire Model.PeerCore Proof.PeerCore.
Open Scope N_scope.

(* what a write leaves on the wire *)
Lemma write_out a m : a_msgs (fst (write a m)) = a_msgs a \/ a_msgs (fst (write a m)) = a_msgs a ++ [m].
Proof. apply write_msgs. Qed.
Lemma write_requested a m : s_requested (a_st (fst (write a m))) = s_requested (a_st a).
Proof. unfold write. destruct (s_wdead _); [reflexivity|]. destruct (_ <? _); reflexivity. Qed.
Lemma write_flags a m : s_can_fast (a_st (fst (write a m))) = s_can_fast (a_st a).
Proof. unfold write. destruct (s_wdead _); [reflexivity|]. destruct (_ <? _); reflexivity. Qed.

Lemma reject_out a i b l :
  s_requested (a_st (fst (reject a i b l))) = s_requested (a_st a) /\
  (a_msgs (fst (reject a i b l)) = a_msgs a \/
   (s_can_fast (a_st a) = true /\ a_msgs (fst (reject a i b l)) = a_msgs a ++ [RejectRequest i b l])).
Proof.
  unfold reject. destruct (s_can_fast (a_st a)) eqn:F; [|split; [reflexivity|now left]].
  split; [apply write_requested|]. destruct (write_out a (RejectRequest i b l)) as [H|H]; [now left|right; auto].
Qed.

(* The fate of a Request from the remote peer, from ANY state: either it is refused — the queue of
   pending uploads is left as it was and at most a RejectRequest with the request's own fields is
   written, and only to a peer with the fast extension — or it is appended to the queue, after the
   oldest pending request has been given up (and rejected likewise) when the queue was full.
   Nothing else is written: in particular no Piece. *)
Theorem request_outcome s ballast i b l ad k :
  let r := step s ballast (OpMsg (Request i b l) ad) k in
  let a := fst r in
  let req := {| u_index := i; u_begin := b; u_length := l |} in
  (* refused *)
  (s_requested (a_st a) = s_requested s /\
   (a_msgs a = [] \/ (s_can_fast s = true /\ a_msgs a = [RejectRequest i b l]))) \/
  (* accepted: we are unchoking the peer, the block is not larger than 128 KiB *)
  (s_am_unchoking s = true /\ l <= max_request_length /\
   ((s_requested (a_st a) = s_requested s ++ [req] /\ a_msgs a = []) \/
    (exists h t, s_requested s = h :: t /\ upload_queue_max <= llen (s_requested s) /\
       (s_requested (a_st a) = t ++ [req] \/ (snd r = VDisconnect /\ s_requested (a_st a) = t)) /\
       (a_msgs a = [] \/ (s_can_fast s = true /\ a_msgs a = [RejectRequest (u_index h) (u_begin h) (u_length h)]))))).
Proof.
  cbn zeta. unfold step.
  set (s0 := if s_wdead s then s else with_wq s ballast).
  assert (R0 : s_requested s0 = s_requested s) by (subst s0; destruct (s_wdead s); reflexivity).
  assert (F0 : s_can_fast s0 = s_can_fast s) by (subst s0; destruct (s_wdead s); reflexivity).
  assert (U0 : s_am_unchoking s0 = s_am_unchoking s) by (subst s0; destruct (s_wdead s); reflexivity).
  assert (G0 : s_geo s0 = s_geo s) by (subst s0; destruct (s_wdead s); reflexivity).
  cbn [fst snd handle_message acc0 a_st]. unfold set_legit. cbn [a_st a_msgs fst snd].
  destruct ((match s_geo s0 with None => true | Some _ => false end) || negb (s_am_unchoking s0) || (max_request_length <? l)) eqn:C.
  - (* refused *)
    left. unfold of_werr. destruct (reject_out (acc0 s0) i b l) as [Hq Hm]. cbn [acc0 a_st a_msgs app] in Hq, Hm.
    destruct (snd (reject (acc0 s0) i b l)); cbn [fst]; (split; [congruence|]); (destruct Hm as [Hm|[Hf Hm]]; [left; exact Hm|right; split; [congruence|exact Hm]]).
  - right. apply orb_false_iff in C as [C Cl]. apply orb_false_iff in C as [_ Cu]. apply negb_false_iff in Cu.
    split; [congruence|]. split; [lia|].
    destruct (upload_queue_max <=? llen (s_requested s0)) eqn:Q.
    + destruct (s_requested s0) as [|h t] eqn:E.
      * left. cbn [negb fst snd]. unfold ok. cbn [fst snd add_alloc upd_st a_st a_msgs with_requested s_requested acc0]. rewrite E, <- R0. auto.
      * right. exists h, t. split; [congruence|]. split; [rewrite <- R0; lia|].
        destruct (reject_out (upd_st (acc0 s0) (with_requested s0 t)) (u_index h) (u_begin h) (u_length h)) as [Hq Hm].
        cbn [acc0 upd_st a_st a_msgs with_requested s_requested s_can_fast app] in Hq, Hm.
        destruct (reject (upd_st (acc0 s0) (with_requested s0 t)) (u_index h) (u_begin h) (u_length h)) as [a1 e] eqn:Rj. cbn [fst] in Hq, Hm.
        assert (Hm' : a_msgs a1 = [] \/ (s_can_fast s = true /\ a_msgs a1 = [RejectRequest (u_index h) (u_begin h) (u_length h)])).
        { destruct Hm as [Hm|[Hf Hm]]; [left; exact Hm|right; split; [congruence|exact Hm]]. }
        destruct e; cbn [negb fst snd]; unfold ok; cbn [fst snd add_alloc upd_st a_st a_msgs with_requested s_requested].
        -- split; [left; now rewrite Hq|exact Hm'].
        -- split; [left; now rewrite Hq|exact Hm'].
        -- split; [right; split; [reflexivity|exact Hq]|exact Hm'].
    + left. cbn [negb fst snd]. unfold ok. cbn [fst snd add_alloc upd_st a_st a_msgs with_requested s_requested acc0]. rewrite R0. auto.
Qed.
