(* Proof/NoDupReqs.v — a block is never queued or outstanding twice at one peer: for every step of
   the peer core, if no block occurs twice among the queued and the requested blocks before the
   step, none does afterwards.  Since a Request is written exactly when a block moves from the
   queue to the requested list, no request is duplicated while outstanding. *)
From Coq Require Import ZifyBool ZifyN ZifyNat Permutation.
From Storrent Require Import Base.Bytes Base.Bencode Gen.Consts Model.Wire Model.PeerCore Proof.PeerCore Proof.Conserve.
Open Scope N_scope.

Section U.
Variable g : geo.   (* only to name the neutral-operation lemmas of Proof/Conserve.v; nothing depends on it *)

Definition uniq (r : reqs) : Prop := forall c, (held r c <= 1)%nat.

Lemma memN_cnt c : forall l, memN c l = false -> cnt l c = 0%nat.
Proof.
  induction l as [|x l IH]; cbn [memN]; [reflexivity|]. intros H. apply orb_false_iff in H as [H1 H2].
  rewrite cnt_cons, (IH H2). unfold one. destruct (N.eq_dec x c) as [->|]; [rewrite N.eqb_refl in H1; discriminate|reflexivity].
Qed.

Lemma not_member_held r c : rq_member r c = false -> held r c = 0%nat.
Proof.
  unfold rq_member, held. intros H. apply orb_false_iff in H as [H1 H2].
  now rewrite (memN_cnt c _ H1), (memN_cnt c _ H2).
Qed.

Lemma uniq_enqueue r c' : uniq r -> uniq (fst (rq_enqueue r c')).
Proof.
  intros U c. pose proof (held_rq_enqueue r c' c) as E. unfold rq_enqueue in *.
  destruct (rq_member r c') eqn:M; cbn [fst snd] in *; [rewrite E; specialize (U c); lia|].
  rewrite E. unfold one. destruct (N.eq_dec c' c) as [->|]; [rewrite (not_member_held r c M); lia|specialize (U c); lia].
Qed.

Definition le_reqs (r' r : reqs) : Prop := forall c, (held r' c <= held r c)%nat.
Lemma le_refl r : le_reqs r r. Proof. intros c. lia. Qed.
Lemma le_trans r1 r2 r3 : le_reqs r1 r2 -> le_reqs r2 r3 -> le_reqs r1 r3.
Proof. intros A B c. specialize (A c). specialize (B c). lia. Qed.
Lemma uniq_le r' r : le_reqs r' r -> uniq r -> uniq r'.
Proof. intros L U c. specialize (L c). specialize (U c). lia. Qed.

Notation rq a := (s_reqs (a_st a)).

Lemma np_reqs a a' : np g a' = np g a -> rq a' = rq a.
Proof. unfold np. congruence. Qed.

Lemma rq_del_le r c' ro r' q rr : rq_del r c' ro = Some (r', q, rr) -> le_reqs r' r.
Proof. intros H c. pose proof (held_rq_del r c' ro r' q rr c H). lia. Qed.

Lemma mr_loop_le k : forall a, le_reqs (rq (mr_loop k a)) (rq a).
Proof.
  induction k as [|k IH]; intros a; cbn [mr_loop]; [apply le_refl|].
  destruct (rq_queue (rq a)) as [|index qrest] eqn:Q; [apply le_refl|].
  destruct (congested _ || _); [apply le_refl|].
  destruct (from_chunk _ index) as [i b].
  set (a1 := upd_st a (with_reqs (a_st a) {| rq_queue := qrest; rq_requested := rq_requested (rq a) |})).
  assert (L1 : forall c, (held (rq a1) c + one index c = held (rq a) c)%nat).
  { intros c. unfold a1, held. cbn [upd_st a_st with_reqs s_reqs rq_queue rq_requested]. rewrite Q, cnt_cons. lia. }
  destruct (_ || _).
  - eapply le_trans; [apply IH|]. rewrite drop_reqs. intros c. specialize (L1 c). lia.
  - destruct (write a1 _) as [a2 e] eqn:W.
    match type of W with write ?x ?m = _ => pose proof (np_write g x m) as H; rewrite W in H; cbn [fst] in H end.
    apply np_reqs in H. destruct e.
    + eapply le_trans; [apply IH|]. intros c. cbn [upd_st a_st with_reqs s_reqs]. rewrite H.
      unfold held. cbn [rq_queue rq_requested]. rewrite map_app, cnt_app. cbn [map fst]. rewrite cnt_cons.
      specialize (L1 c). unfold held in L1. unfold a1 in *. cbn [upd_st a_st with_reqs s_reqs rq_queue rq_requested] in *.
      change (cnt [] c) with 0%nat. lia.
    + unfold set_legit. cbn [a_st]. rewrite drop_reqs, H. intros c. specialize (L1 c). lia.
    + unfold set_legit. cbn [a_st]. rewrite drop_reqs, H. intros c. specialize (L1 c). lia.
Qed.

Lemma maybe_request_le k a : le_reqs (rq (maybe_request k a)) (rq a).
Proof. unfold maybe_request. destruct (_ && _); [apply le_refl|apply mr_loop_le]. Qed.

Lemma enqueue_all_uniq cs : forall a, uniq (rq a) -> uniq (rq (enqueue_all a cs)).
Proof.
  induction cs as [|c' r IH]; intros a U; cbn [enqueue_all]; [exact U|].
  destruct (from_chunk _ c') as [i b]. destruct (bm_get _ _).
  - pose proof (uniq_enqueue (rq a) c' U) as U1. destruct (rq_enqueue (rq a) c') as [q done]. cbn [fst] in U1.
    destruct done; apply IH; [exact U1|rewrite drop_reqs; exact U1].
  - apply IH. now rewrite drop_reqs.
Qed.

Lemma cancel_chunk_le a c' a' : cancel_chunk a c' = Some a' -> le_reqs (rq a') (rq a).
Proof.
  unfold cancel_chunk. pose proof (held_rq_cancel (rq a) c') as HC.
  destruct (rq_cancel (rq a) c') as [[r1 found] docan]. cbn [fst] in HC. destruct found.
  - intros [= <-]. destruct docan.
    + rewrite (np_reqs _ _ (np_docancel g _ c')). intros c. cbn [upd_st a_st with_reqs s_reqs]. rewrite HC. lia.
    + intros c. cbn [upd_st a_st with_reqs s_reqs]. rewrite HC. lia.
  - destruct (rq_del (rq a) c' false) as [[[r2 q] r]|] eqn:D; [|discriminate].
    pose proof (rq_del_le _ _ _ _ _ _ D) as L.
    destruct (q || r); intros [= <-]; [|exact L].
    rewrite drop_reqs. destruct r; [rewrite (np_reqs _ _ (np_docancel g _ c'))|]; exact L.
Qed.

Lemma cancel_many_le cs : forall a a', cancel_many a cs = Some a' -> le_reqs (rq a') (rq a).
Proof.
  induction cs as [|c' r IH]; intros a a'; cbn [cancel_many]; [intros [= <-]; apply le_refl|].
  destruct (cancel_chunk a c') as [a1|] eqn:C; [|discriminate]. intros H.
  eapply le_trans; [apply (IH a1 a' H)|now apply cancel_chunk_le in C].
Qed.

Lemma fold_drop_reqs l : forall a, rq (fold_left drop l a) = rq a.
Proof. induction l as [|x r IH]; intros a; cbn [fold_left]; [reflexivity|]. now rewrite IH, drop_reqs. Qed.

Lemma clear_requests_le a both : le_reqs (rq (clear_requests a both)) (rq a).
Proof.
  unfold clear_requests. rewrite fold_drop_reqs. destruct both; [rewrite fold_drop_reqs|];
    intros c; cbn [upd_st a_st with_reqs s_reqs]; unfold held, reqs_nil; cbn [rq_queue rq_requested map];
    change (cnt [] c) with 0%nat; lia.
Qed.

Lemma expire_loop_le fuel : forall i a drops cancels d, le_reqs (rq (fst (expire_loop fuel i a drops cancels d))) (rq a).
Proof.
  induction fuel as [|f IH]; intros i a drops cancels d; cbn [expire_loop]; [apply le_refl|].
  destruct (nth_error _ i) as [[c0 cancelled]|]; [|apply le_refl].
  destruct (cancelled && memN c0 drops).
  - destruct (remove_swap _ _) as [[x rest]|] eqn:R; [|apply le_refl].
    apply remove_swap_perm in R as [P _].
    eapply le_trans; [apply IH|]. rewrite drop_reqs. intros c. cbn [upd_st a_st with_reqs s_reqs].
    unfold held. cbn [rq_queue rq_requested].
    rewrite (cnt_perm (map fst (rq_requested (rq a))) (map fst (x :: rest)) c (Permutation_map fst P)).
    cbn [map]. rewrite cnt_cons. lia.
  - destruct (negb cancelled && memN c0 cancels); [|apply IH].
    eapply le_trans; [apply IH|]. rewrite (np_reqs _ _ (np_docancel g _ c0)).
    intros c. cbn [upd_st a_st with_reqs s_reqs]. unfold held. cbn [rq_queue rq_requested].
    rewrite map_map. erewrite map_ext; [apply Nat.le_refl|]. intros e. now destruct (fst e =? c0).
Qed.

Lemma tick_le a drops cancels k : le_reqs (rq (tick a drops cancels k)) (rq a).
Proof.
  unfold tick. destruct (rq_requested _) as [|x l]; [apply le_refl|].
  pose proof (expire_loop_le (2 * length (x :: l) + 2) 0 a drops cancels false) as L.
  destruct (expire_loop _ 0 a drops cancels false) as [a1 dropped]. cbn [fst] in L.
  destruct dropped; [eapply le_trans; [apply maybe_request_le|exact L]|exact L].
Qed.

Lemma handle_event_uniq a e k : uniq (rq a) -> uniq (rq (fst (handle_event a e k))).
Proof.
  intros U.
  assert (N0 : forall x, np g x = np g a -> uniq (rq x)) by (intros x H; now rewrite (np_reqs _ _ H)).
  destruct e; cbn [handle_event]; unfold ok, of_werr.
  - (* PeerMetadataComplete *)
    destruct (s_geo (a_st a)); [cbn [fst]; exact U|].
    destruct (s_is_seed (a_st a)).
    + destruct (s_bitmap (a_st a)); cbn [fst]; [exact U|].
      rewrite (np_reqs _ _ (np_maybe_interested g _)). exact U.
    + destruct (_ <? _); cbn [fst]; [exact U|]. rewrite (np_reqs _ _ (np_maybe_interested g _)). exact U.
  - (* PeerRequest *)
    destruct (s_geo (a_st a)); cbn [fst]; [|exact U].
    eapply uniq_le; [apply maybe_request_le|]. now apply enqueue_all_uniq.
  - (* PeerHave *) apply N0. break_goal; cbn [fst];
      repeat match goal with
      | H : write ?x ?m = (?y, _) |- _ => let F := fresh "F" in pose proof (np_write g x m) as F; rewrite H in F; cbn [fst] in F; clear H
      end;
      repeat first [reflexivity | eassumption | etransitivity; [first [apply np_maybe_interested | eassumption]|]].
  - (* PeerCancel *)
    destruct (s_geo (a_st a)); [|cbn [fst]; exact U].
    destruct (cancel_chunk a c) as [a'|] eqn:C; cbn [fst]; [|exact U].
    eapply uniq_le; [now apply cancel_chunk_le in C|exact U].
  - (* PeerCancelPiece *)
    destruct (s_geo (a_st a)); [|cbn [fst]; exact U].
    destruct (cancel_many a _) as [a'|] eqn:C; cbn [fst]; [|exact U].
    eapply uniq_le; [now apply cancel_many_le in C|exact U].
  - (* PeerInterested *) apply N0. cbn [fst]. etransitivity; [apply np_maybe_interested|]. reflexivity.
  - (* PeerGetMetadata *) apply N0. break_goal; cbn [fst]; [reflexivity|apply np_write].
  - (* PeerPex *) apply N0. break_goal; cbn [fst]; reflexivity.
  - (* PeerUnchoke *)
    apply N0. pose proof (np_unchoke g a u) as H. destruct (unchoke a u) as [a1 e]. cbn [fst] in H. destruct e; cbn [fst]; exact H.
  - cbn [fst]. exact U.
Qed.

Lemma handle_message_uniq a m k ad : uniq (rq a) -> uniq (rq (fst (handle_message a m k ad))).
Proof.
  intros U. destruct (reqs_neutral m) eqn:Nm.
  { now rewrite (np_reqs _ _ (handle_message_np g a m k ad Nm)). }
  destruct m; try discriminate; cbn [handle_message]; unfold ok.
  - (* Choke *) cbn [fst]. unfold add_ev. cbn [a_st]. eapply uniq_le; [apply clear_requests_le|exact U].
  - (* Piece *)
    destruct (s_geo (a_st a)) as [g0|]; [|cbn [fst]; exact U].
    destruct (num_pieces g0 <=? i); [cbn [fst]; exact U|].
    destruct (rq_del (rq a) (to_chunk g0 i b) false) as [[[q0 q] r]|] eqn:D; [|cbn [fst]; exact U].
    cbn [fst]. eapply uniq_le; [apply maybe_request_le|].
    pose proof (rq_del_le _ _ _ _ _ _ D) as L.
    assert (E : forall x, rq x = q0 -> uniq (rq x)) by (intros x ->; eapply uniq_le; eauto).
    apply E. destruct (r || q); [|reflexivity].
    destruct (len d =? _); [destruct ad|]; unfold add_ev, set_legit; rewrite ?drop_reqs; reflexivity.
  - (* RejectRequest *)
    destruct (negb (s_can_fast (a_st a))); [cbn [fst]; exact U|].
    destruct (s_geo (a_st a)) as [g0|]; [|cbn [fst]; exact U].
    destruct (rq_del (rq a) (to_chunk g0 i b) true) as [[[q0 q] r]|] eqn:D; [|cbn [fst]; exact U].
    cbn [fst]. eapply uniq_le; [apply maybe_request_le|].
    pose proof (rq_del_le _ _ _ _ _ _ D) as L.
    assert (E : forall x, rq x = q0 -> uniq (rq x)) by (intros x ->; eapply uniq_le; eauto).
    apply E. destruct r; rewrite ?drop_reqs; reflexivity.
Qed.

Theorem step_uniq s ballast o k : uniq (s_reqs s) -> uniq (s_reqs (a_st (fst (step s ballast o k)))).
Proof.
  intros U. unfold step.
  set (s0 := if s_wdead s then s else with_wq s ballast).
  assert (U0 : uniq (rq (acc0 s0))) by (cbn [acc0 a_st]; subst s0; now destruct (s_wdead s)).
  destruct o as [m ad|e|drops cancels| |allow data|].
  - destruct m; cbn [fst]; unfold set_legit; cbn [a_st]; now apply handle_message_uniq.
  - destruct e; cbn [fst]; unfold set_legit; cbn [a_st]; now apply handle_event_uniq.
  - unfold ok. cbn [fst]. eapply uniq_le; [apply tick_le|exact U0].
  - unfold ok. cbn [fst]. unfold set_legit. cbn [a_st]. now rewrite (np_reqs _ _ (np_send_pex g (acc0 s0))).
  - cbn [fst]. unfold of_werr. pose proof (np_schedule_upload g (acc0 s0) allow data) as H. apply np_reqs in H.
    destruct (snd (schedule_upload (acc0 s0) allow data)); cbn [fst]; unfold set_legit; cbn [a_st]; now rewrite H.
  - unfold ok. cbn [fst]. unfold set_legit, upd_st, with_wdead. cbn [a_st s_reqs]. exact U0.
Qed.

(* in the usual vocabulary *)
Lemma uniq_NoDup r : uniq r <-> NoDup (rq_queue r ++ map fst (rq_requested r)).
Proof.
  rewrite (NoDup_count_occ N.eq_dec). unfold uniq, held, cnt. split; intros H c; specialize (H c); rewrite count_occ_app in *; lia.
Qed.

End U.

Lemma step_nodup s ballast o k :
  NoDup (rq_queue (s_reqs s) ++ map fst (rq_requested (s_reqs s))) ->
  let s' := a_st (fst (step s ballast o k)) in
  NoDup (rq_queue (s_reqs s') ++ map fst (rq_requested (s_reqs s'))).
Proof.
  intros H. apply uniq_NoDup.
  apply (step_uniq {| psize := 16384; total := 0; info_len := 0 |}). now apply uniq_NoDup.
Qed.
