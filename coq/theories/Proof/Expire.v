(* Proof/Expire.v — the fair shares of tor.Expire add up: if every torrent asked to evict comes down
   to its share, the total is at most the low-water mark. *)
From Coq Require Import ZArith List Lia.
From Storrent Require Import Model.Expire.
Import ListNotations.
Open Scope Z_scope.

Lemma filter_split_length {A} (p : A -> bool) l :
  (length (filter p l) + length (filter (fun x => negb (p x)) l) = length l)%nat.
Proof. induction l as [|x r IH]; [reflexivity|]. cbn [filter]. destruct (p x); cbn [negb length]; lia. Qed.

Lemma small_sum fair l : zsum (filter (fun b => b <=? fair) l) <= fair * Z.of_nat (length (filter (fun b => b <=? fair) l)).
Proof.
  unfold zsum. induction l as [|x r IH]; [cbn; lia|]. cbn [filter]. destruct (x <=? fair) eqn:E; [|exact IH].
  cbn [fold_right length]. apply Z.leb_le in E. lia.
Qed.

Lemma after_sum fair f2 : fair <= f2 -> forall sizes afters,
  Forall2 (fun b a => if asked f2 b then 0 <= a <= f2 else a = b) sizes afters ->
  zsum afters <= zsum (filter (fun b => b <=? fair) sizes) + f2 * Z.of_nat (length (filter (fun b => negb (b <=? fair)) sizes)).
Proof.
  intros Hf. induction 1 as [|b a sizes afters Hba _ IH]; [cbn; lia|].
  unfold zsum in *. cbn [filter fold_right]. unfold asked in Hba.
  destruct (b <=? fair) eqn:E; cbn [negb fold_right length].
  - apply Z.leb_le in E.
    destruct (f2 <? b) eqn:A; [apply Z.ltb_lt in A; lia|]. subst a. lia.
  - apply Z.leb_gt in E. rewrite Nat2Z.inj_succ, Z.mul_succ_r. destruct (f2 <? b) eqn:A.
    + lia.
    + apply Z.ltb_ge in A. subst a. lia.
Qed.

Theorem expire_fair mark space sizes f2 :
  expire_plan mark space sizes = (-1, Some f2) ->
  mark <= space /\
  low_mark mark / Z.of_nat (length sizes) <= f2 /\
  forall afters,
    Forall2 (fun b a => if asked f2 b then 0 <= a <= f2 else a = b) sizes afters ->
    zsum afters <= low_mark mark.
Proof.
  unfold expire_plan. set (low := low_mark mark).
  destruct (space <? (low + mark) / 2); [discriminate|]. destruct (space <? mark) eqn:Hs; [discriminate|].
  assert (Hc : sizes <> [] -> 0 < Z.of_nat (length sizes)) by (destruct sizes; [congruence|cbn [length]; lia]).
  destruct sizes as [|s0 r] eqn:Es; [discriminate|]. rewrite <- Es in *. specialize (Hc ltac:(rewrite Es; discriminate)). clear Es.
  set (cnt := Z.of_nat (length sizes)) in *. set (fair := low / cnt).
  set (small := zsum (filter (fun b => b <=? fair) sizes)).
  set (big := Z.of_nat (length (filter (fun b => negb (b <=? fair)) sizes))).
  destruct (big =? 0) eqn:Eb; [discriminate|]. intros [= <-]. apply Z.eqb_neq in Eb.
  assert (Hbig : 0 < big) by (subst big; lia).
  pose proof (small_sum fair sizes) as Hsm. fold small in Hsm.
  pose proof (filter_split_length (fun b => b <=? fair) sizes) as Hlen.
  assert (Hfair : fair * cnt <= low) by (subst fair; rewrite Z.mul_comm; apply Z.mul_div_le; lia).
  assert (Hf2 : fair <= (low - small) / big).
  { apply Z.div_le_lower_bound; [lia|]. subst big cnt. nia. }
  split; [apply Z.ltb_ge in Hs; exact Hs|]. split; [exact Hf2|].
  intros afters H. pose proof (after_sum fair _ Hf2 sizes afters H) as Ha. fold small big in Ha.
  assert (big * ((low - small) / big) <= low - small) by (apply Z.mul_div_le; lia). nia.
Qed.

(* the other outcomes: +1 only below the middle mark, 0 only below the high mark or with nothing to
   evict from *)
Theorem expire_decision mark space sizes rc share :
  expire_plan mark space sizes = (rc, share) ->
  (rc = 1 -> space < (low_mark mark + mark) / 2) /\
  (rc = -1 -> mark <= space /\ share <> None) /\
  (rc = 1 \/ rc = 0 \/ rc = -1).
Proof.
  unfold expire_plan. destruct (space <? (low_mark mark + mark) / 2) eqn:E1.
  { intros [= <- <-]. apply Z.ltb_lt in E1. repeat split; auto; discriminate. }
  destruct (space <? mark) eqn:E2.
  { intros [= <- <-]. repeat split; auto; discriminate. }
  apply Z.ltb_ge in E2. destruct sizes as [|s0 r].
  { intros [= <- <-]. repeat split; auto; discriminate. }
  destruct (_ =? 0); intros [= <- <-]; repeat split; auto; discriminate.
Qed.
