(* Proof/Hs.v — the operational run of a handshake program, under any segmentation of the
   incoming stream, computes what the reference run computes on the stream as a whole. *)
From Coq Require Import ZifyBool ZifyN ZifyNat.
From Storrent Require Import Base.Bytes Base.Bencode Base.Crypto Model.Hs Proof.Crypto.
Open Scope N_scope.

Ltac Zify.zify_post_hook ::= Z.div_mod_to_equations.

(* ---------- slices ---------- *)

Lemma ftake_fdrop n a : ftake n a ++ fdrop n a = a.
Proof. apply firstn_skipn. Qed.

Lemma len_ftake n a : n <= len a -> len (ftake n a) = n.
Proof. unfold len, ftake. intros H. rewrite firstn_length. lia. Qed.

Lemma len_fdrop n a : len (fdrop n a) = len a - n.
Proof. unfold len, fdrop. rewrite skipn_length. lia. Qed.

Lemma ftake_app_le n a b : n <= len a -> ftake n (a ++ b) = ftake n a.
Proof.
  unfold len, ftake. intros H. rewrite firstn_app.
  replace (N.to_nat n - length a)%nat with 0%nat by lia. cbn [firstn]. apply app_nil_r.
Qed.

Lemma fdrop_app_le n a b : n <= len a -> fdrop n (a ++ b) = fdrop n a ++ b.
Proof.
  unfold len, fdrop. intros H. rewrite skipn_app.
  replace (N.to_nat n - length a)%nat with 0%nat by lia. reflexivity.
Qed.

(* ---------- bytes.Index ---------- *)

Lemma prefix_eqb_len p : forall a, prefix_eqb p a = true -> len p <= len a.
Proof.
  induction p as [|x p IH]; intros [|y a] H; cbn [prefix_eqb] in H; try discriminate;
    rewrite ?len_nil, ?len_cons; try lia.
  apply andb_prop in H as [_ H]. apply IH in H. lia.
Qed.

Lemma prefix_eqb_app p : forall a b, prefix_eqb p a = true -> prefix_eqb p (a ++ b) = true.
Proof.
  induction p as [|x p IH]; intros [|y a] b H; cbn [prefix_eqb app] in *; try discriminate; try reflexivity.
  apply andb_prop in H as [H1 H2]. rewrite H1. cbn [andb]. now apply IH.
Qed.

Lemma prefix_eqb_app_inv p : forall a b, len p <= len a -> prefix_eqb p (a ++ b) = prefix_eqb p a.
Proof.
  induction p as [|x p IH]; intros [|y a] b H; cbn [prefix_eqb app]; try reflexivity.
  - rewrite len_cons, len_nil in H. lia.
  - rewrite !len_cons in H. rewrite IH by lia. reflexivity.
Qed.

Lemma find_bound p : forall a i, find p a = Some i -> i + len p <= len a.
Proof.
  induction a as [|x a IH]; intros i; cbn [find].
  - destruct (prefix_eqb p []) eqn:E; [|discriminate]. intros [= <-]. apply prefix_eqb_len in E. lia.
  - destruct (prefix_eqb p (x :: a)) eqn:E.
    + intros [= <-]. apply prefix_eqb_len in E. lia.
    + destruct (find p a) as [j|]; [|discriminate]. cbn [option_map]. intros [= <-].
      specialize (IH j eq_refl). rewrite len_cons. lia.
Qed.

Lemma find_app p : forall a b i, find p a = Some i -> find p (a ++ b) = Some i.
Proof.
  induction a as [|x a IH]; intros b i; cbn [find].
  - destruct p as [|y p]; cbn [prefix_eqb]; [|discriminate]. intros [= <-]. cbn [app].
    destruct b; reflexivity.
  - destruct (prefix_eqb p (x :: a)) eqn:E.
    + intros [= <-]. cbn [app find]. change (x :: a ++ b) with ((x :: a) ++ b).
      now rewrite (prefix_eqb_app p (x :: a) b E).
    + destruct (find p a) as [j|] eqn:F; [|discriminate]. cbn [option_map]. intros [= <-].
      cbn [app find]. pose proof (find_bound p a j F) as Hb.
      change (x :: a ++ b) with ((x :: a) ++ b).
      rewrite prefix_eqb_app_inv by (rewrite len_cons; lia). rewrite E.
      now rewrite (IH b j eq_refl).
Qed.

Lemma find_app_inside p : forall a b i, find p (a ++ b) = Some i -> i + len p <= len a -> find p a = Some i.
Proof.
  induction a as [|x a IH]; intros b i F Hb.
  - rewrite len_nil in Hb. assert (i = 0) by lia. subst i.
    assert (Hp : p = []) by (destruct p; [reflexivity|rewrite len_cons in Hb; lia]). subst p. reflexivity.
  - cbn [app find] in F. cbn [find].
    destruct (prefix_eqb p (x :: a ++ b)) eqn:E.
    + injection F as <-. change (x :: a ++ b) with ((x :: a) ++ b) in E.
      rewrite prefix_eqb_app_inv in E by lia. now rewrite E.
    + destruct (find p (a ++ b)) as [j|] eqn:F2; [|discriminate]. cbn [option_map] in F. injection F as <-.
      rewrite len_cons in Hb. rewrite (IH b j F2) by lia.
      destruct (prefix_eqb p (x :: a)) eqn:E3; [|reflexivity].
      apply (prefix_eqb_app p (x :: a) b) in E3. cbn [app] in E3. congruence.
Qed.

Lemma find_app_none p a b : find p (a ++ b) = None -> find p a = None.
Proof.
  intros H. destruct (find p a) as [i|] eqn:F; [|reflexivity].
  rewrite (find_app p a b i F) in H. discriminate.
Qed.

(* ---------- the simulation relation ---------- *)

Definition R (s : ost) (t : pst) : Prop :=
  p_pend t = o_buf s ++ dxor (o_dec s) (o_avail s) /\
  p_dec t = dstate (o_dec s) (o_avail s) /\
  p_future t = o_future s /\ p_tape t = o_tape s /\ p_wr t = o_wr s.

Lemma R_len s t : R s t -> len (p_pend t) = len (o_buf s) + len (o_avail s).
Proof. intros (H & _). rewrite H, len_app, dxor_len. reflexivity. Qed.

(* one Read moves bytes from the connection into the buffer and changes nothing else *)
Lemma read1_spec s t cap :
  R s t -> 0 < len (o_avail s) -> 1 <= cap ->
  exists s' n, read1 s cap = Some (s', n) /\ R s' t /\ 1 <= n /\ n <= cap /\
               len (o_buf s') = len (o_buf s) + n /\ len (o_avail s') + n = len (o_avail s).
Proof.
  intros (Hp & Hd & Hf & Ht & Hw) Ha Hc. unfold read1.
  destruct (len (o_avail s) =? 0) eqn:E; [lia|].
  set (want := match o_orc s with [] => cap | k :: _ => N.max 1 k end).
  set (n := N.min (N.min cap (len (o_avail s))) want).
  assert (Hn : 1 <= n /\ n <= cap /\ n <= len (o_avail s)).
  { subst n want. destruct (o_orc s); lia. }
  eexists _, n. split; [reflexivity|]. cbn [o_buf o_avail o_future o_dec o_tape o_wr].
  split; [|split; [lia|split; [lia|split]]].
  - unfold R. cbn [o_buf o_avail o_future o_dec o_tape o_wr]. repeat split; try assumption.
    + rewrite Hp, <- app_assoc. f_equal. rewrite <- dxor_app. now rewrite ftake_fdrop.
    + rewrite Hd, <- dstate_app. now rewrite ftake_fdrop.
  - rewrite len_app, dxor_len, len_ftake by lia. reflexivity.
  - rewrite len_fdrop. lia.
Qed.

Lemma read1_none s cap : len (o_avail s) = 0 -> read1 s cap = None.
Proof. intros H. unfold read1. now rewrite H. Qed.

Lemma ral_ok fuel : forall s t cap min,
  R s t -> min <= cap -> (N.to_nat min < fuel)%nat -> min <= len (o_avail s) ->
  exists s', ral fuel s cap min = Some s' /\ R s' t /\ len (o_buf s) + min <= len (o_buf s').
Proof.
  induction fuel as [|f IH]; intros s t cap min HR Hc Hf Ha; [lia|].
  cbn [ral]. destruct (min =? 0) eqn:E.
  - exists s. split; [reflexivity|]. split; [exact HR|lia].
  - destruct (read1_spec s t cap HR ltac:(lia) ltac:(lia)) as (s1 & n & H1 & HR1 & Hn1 & Hn2 & Hb & Hav).
    rewrite H1.
    destruct (IH s1 t (cap - n) (min - n) HR1 ltac:(lia) ltac:(lia) ltac:(lia)) as (s2 & H2 & HR2 & Hb2).
    exists s2. split; [exact H2|]. split; [exact HR2|lia].
Qed.

Lemma ral_fail fuel : forall s t cap min,
  R s t -> min <= cap -> len (o_avail s) < min -> ral fuel s cap min = None.
Proof.
  induction fuel as [|f IH]; intros s t cap min HR Hc Ha; cbn [ral].
  - destruct (min =? 0) eqn:E; [lia|reflexivity].
  - destruct (min =? 0) eqn:E; [lia|].
    destruct (len (o_avail s) =? 0) eqn:E0.
    + rewrite read1_none by lia. reflexivity.
    + destruct (read1_spec s t cap HR ltac:(lia) ltac:(lia)) as (s1 & n & H1 & HR1 & Hn1 & Hn2 & Hb & Hav).
      rewrite H1. apply (IH s1 t); [exact HR1|lia|lia].
Qed.

Lemma read_more_ok s t n m :
  R s t -> n <= len (p_pend t) ->
  exists s', read_more s n m = Some s' /\ R s' t /\ n <= len (o_buf s').
Proof.
  intros HR Hn. pose proof (R_len s t HR) as HL. unfold read_more.
  destruct (n <=? len (o_buf s)) eqn:E.
  - exists s. split; [reflexivity|]. split; [exact HR|lia].
  - destruct (ral_ok (S (N.to_nat (n - len (o_buf s)))) s t (N.max m n - len (o_buf s)) (n - len (o_buf s))
                HR ltac:(lia) ltac:(lia) ltac:(lia)) as (s' & H1 & HR' & Hb).
    exists s'. split; [exact H1|]. split; [exact HR'|lia].
Qed.

Lemma read_more_fail s t n m :
  R s t -> len (p_pend t) < n -> read_more s n m = None.
Proof.
  intros HR Hn. pose proof (R_len s t HR) as HL. unfold read_more.
  destruct (n <=? len (o_buf s)) eqn:E; [lia|].
  apply (ral_fail _ s t); [exact HR|lia|lia].
Qed.

(* consuming n buffered bytes *)
Lemma R_consume s t n :
  R s t -> n <= len (o_buf s) ->
  ftake n (o_buf s) = ftake n (p_pend t) /\ R (set_buf s (fdrop n (o_buf s))) (set_pend t (fdrop n (p_pend t))).
Proof.
  intros (Hp & Hd & Hf & Ht & Hw) Hn. split.
  - rewrite Hp. now rewrite ftake_app_le.
  - unfold R, set_buf, set_pend. cbn. repeat split; try assumption.
    rewrite Hp. now rewrite fdrop_app_le.
Qed.

(* synchronise finds the marker wherever the reads fall, if it ends within the first n bytes *)
Lemma sync_ok fuel : forall s t pat n m i,
  R s t -> find pat (p_pend t) = Some i -> i + len pat <= n -> n <= m ->
  (N.to_nat (n - len (o_buf s)) < fuel)%nat ->
  exists s', sync_loop fuel s pat n m = Some s' /\ R s' (set_pend t (fdrop (i + len pat) (p_pend t))).
Proof.
  induction fuel as [|f IH]; intros s t pat n m i HR F Hi Hm Hf; [lia|].
  pose proof HR as (Hp & Hd & Hfu & Ht & Hw). pose proof (R_len s t HR) as HL.
  cbn [sync_loop]. destruct (find pat (o_buf s)) as [j|] eqn:Fb.
  - pose proof (find_app pat (o_buf s) (dxor (o_dec s) (o_avail s)) j Fb) as F2.
    rewrite <- Hp, F in F2. injection F2 as <-.
    pose proof (find_bound pat (o_buf s) i Fb) as Hb.
    eexists. split; [reflexivity|].
    unfold R, set_buf, set_pend. cbn. repeat split; try assumption.
    rewrite Hp. now rewrite fdrop_app_le.
  - assert (Hlt : len (o_buf s) < i + len pat).
    { destruct (i + len pat <=? len (o_buf s)) eqn:E; [|lia].
      rewrite Hp in F. rewrite (find_app_inside pat _ _ i F) in Fb by lia. discriminate. }
    destruct (n <=? len (o_buf s)) eqn:E; [lia|].
    pose proof (find_bound pat (p_pend t) i F) as Hb.
    destruct (read1_spec s t (m - len (o_buf s)) HR ltac:(lia) ltac:(lia)) as (s1 & k & H1 & HR1 & Hk1 & Hk2 & Hb1 & Hav).
    rewrite H1. apply (IH s1 t pat n m i HR1 F Hi Hm). lia.
Qed.

Lemma sync_none fuel : forall s t pat n m,
  R s t -> n <= m -> find pat (p_pend t) = None -> sync_loop fuel s pat n m = None.
Proof.
  induction fuel as [|f IH]; intros s t pat n m HR Hm F; pose proof HR as (Hp & _);
    cbn [sync_loop]; rewrite Hp in F; rewrite (find_app_none pat _ _ F).
  - now destruct (n <=? len (o_buf s)).
  - destruct (n <=? len (o_buf s)) eqn:E; [reflexivity|].
    destruct (len (o_avail s) =? 0) eqn:E0.
    + rewrite read1_none by lia. reflexivity.
    + destruct (read1_spec s t (m - len (o_buf s)) HR ltac:(lia) ltac:(lia)) as (s1 & k & H1 & HR1 & _).
      rewrite H1. apply (IH s1 t); [exact HR1|exact Hm|now rewrite Hp].
Qed.

(* ---------- the theorem ---------- *)

Definition same_end {A} (s : ost) (t : pst) (o : outcome A) : Prop :=
  match o with
  | OK _ => o_delivered s = p_delivered t /\ o_wr s = p_wr t
  | Err _ => True
  end.

Lemma R_delivered s t : R s t -> o_delivered s = p_delivered t /\ o_wr s = p_wr t.
Proof.
  intros (Hp & Hd & Hf & Ht & Hw). split; [|now symmetry].
  unfold o_delivered, p_delivered. rewrite Hp, Hd, Hf, <- app_assoc. f_equal. apply dxor_app.
Qed.

Theorem run_sim {A} (p : prog A) : forall s t,
  R s t -> p_amb (snd (spec_run p t)) = false ->
  fst (op_run p s) = fst (spec_run p t) /\
  same_end (snd (op_run p s)) (snd (spec_run p t)) (fst (op_run p s)).
Proof.
  induction p as [r|c|n m k IH|pat n m k IH|b k IH|n k IH|st k IH|b k IH|c k IH]; intros s t HR Hamb.
  - cbn. split; [reflexivity|]. now apply R_delivered.
  - cbn. split; [reflexivity|exact I].
  - (* Need *)
    cbn [op_run spec_run] in *. destruct (n <=? len (p_pend t)) eqn:E.
    + destruct (read_more_ok s t n m HR ltac:(lia)) as (s' & H1 & HR' & Hb). rewrite H1.
      destruct (R_consume s' t n HR' Hb) as [Hk HR2]. rewrite Hk. now apply IH.
    + rewrite (read_more_fail s t n m HR) by lia. cbn. split; [reflexivity|exact I].
  - (* Sync *)
    cbn [op_run spec_run] in *. destruct (find pat (p_pend t)) as [i|] eqn:F.
    + destruct (i + len pat <=? n) eqn:E.
      * destruct (sync_ok (S (N.to_nat (N.max m n))) s t pat n (N.max m n) i HR F ltac:(lia) ltac:(lia) ltac:(lia))
          as (s' & H1 & HR'). rewrite H1. now apply IH.
      * cbn in Hamb. discriminate.
    + rewrite (sync_none _ s t pat n (N.max m n) HR ltac:(lia) F). cbn. split; [reflexivity|exact I].
  - (* Write *)
    cbn [op_run spec_run] in *. apply IH; [|exact Hamb].
    destruct HR as (Hp & Hd & Hf & Ht & Hw). unfold R.
    cbn [p_pend p_dec p_future p_tape p_wr o_buf o_avail o_dec o_future o_tape o_wr].
    rewrite Hf, Hp, Hd, Ht, Hw. split; [|split; [|now repeat split]].
    + rewrite <- app_assoc. f_equal. symmetry. apply dxor_app.
    + symmetry. apply dstate_app.
  - (* Rand *)
    cbn [op_run spec_run] in *. destruct HR as (Hp & Hd & Hf & Ht & Hw). rewrite <- Ht in *.
    apply IH; [|exact Hamb]. unfold R. cbn. repeat split; try assumption; try reflexivity.
  - (* SetDec *)
    cbn [op_run spec_run] in *. destruct (p_dec t) as [old|] eqn:Ed.
    + cbn in Hamb. discriminate.
    + apply IH; [|exact Hamb]. destruct HR as (Hp & Hd & Hf & Ht & Hw).
      assert (Hn : o_dec s = None) by (destruct (o_dec s); [rewrite Ed in Hd; discriminate|reflexivity]).
      rewrite Hn in Hp. cbn [dxor] in Hp.
      unfold R. cbn. rewrite Hp, rc4_xor_app. cbn [fst snd]. repeat split; assumption.
  - (* Unread *)
    cbn [op_run spec_run] in *. apply IH; [|exact Hamb].
    destruct HR as (Hp & Hd & Hf & Ht & Hw). unfold R, set_buf, set_pend. cbn. repeat split; try assumption.
    rewrite Hp. now rewrite app_assoc.
  - (* CheckEmpty *)
    cbn [op_run spec_run] in *. destruct (p_pend t) as [|x r] eqn:Ep.
    + assert (Eb : o_buf s = []).
      { destruct HR as (Hp & _). rewrite Ep in Hp. destruct (o_buf s); [reflexivity|discriminate Hp]. }
      rewrite Eb. apply IH; [|exact Hamb]. exact HR.
    + cbn in Hamb. discriminate.
Qed.

Lemma R_init phases orc tape : R (o_init phases orc tape) (p_init phases tape).
Proof. unfold R, o_init, p_init. cbn. repeat split; reflexivity. Qed.

(* For every way the network may cut the incoming stream: same outcome, same bytes handed to the
   message layer, same bytes written — unless the peer broke the MSE framing ([p_amb]). *)
Theorem run_indep {A} (p : prog A) phases tape orc :
  p_amb (snd (spec_run p (p_init phases tape))) = false ->
  fst (op_run p (o_init phases orc tape)) = fst (spec_run p (p_init phases tape)) /\
  same_end (snd (op_run p (o_init phases orc tape))) (snd (spec_run p (p_init phases tape)))
           (fst (op_run p (o_init phases orc tape))).
Proof. intros H. apply run_sim; [apply R_init|exact H]. Qed.
