(* Proof/Namespace.v — lemmas about Model/Namespace.v. *)
From Coq Require Import ZifyBool ZifyN ZifyNat.
From Storrent Require Import Base.Bytes Base.Bencode Model.Wire Model.Torfile Model.Namespace.
Open Scope N_scope.

Lemma path_eqb_eq p q : path_eqb p q = true <-> p = q.
Proof.
  revert q; induction p as [|a p IH]; intros [|b q]; cbn; split; intros H; try congruence; try discriminate.
  - apply andb_true_iff in H as [H1 H2]. apply bytes_eqb_eq in H1. apply IH in H2. congruence.
  - injection H as -> ->. apply andb_true_iff. split; [now apply bytes_eqb_eq|now apply IH].
Qed.

(* fileParms resolves exactly the paths of the table (single-file: the name alone) *)
Lemma file_parms_multi files name total p o l :
  files <> [] ->
  (file_parms files name total p = Some (o, l) ->
   exists f, In f files /\ f_path f = p /\ f_off f = o /\ f_len f = l).
Proof.
  intros Hne. unfold file_parms. destruct files as [|f0 r]; [congruence|].
  destruct (find _ (f0 :: r)) as [f|] eqn:F; [|discriminate].
  intros [= <- <-]. apply find_some in F as [Hin E]. apply path_eqb_eq in E.
  exists f. auto.
Qed.

Lemma file_parms_multi_none files name total p :
  files <> [] ->
  file_parms files name total p = None -> forall f, In f files -> f_path f <> p.
Proof.
  intros Hne. unfold file_parms. destruct files as [|f0 r]; [congruence|].
  destruct (find _ (f0 :: r)) as [f|] eqn:F; [discriminate|].
  intros _ f Hin E. apply (find_none _ _ F) in Hin. subst p.
  assert (path_eqb (f_path f) (f_path f) = true) by now apply path_eqb_eq. congruence.
Qed.

Lemma file_parms_single name total p :
  file_parms [] name total p = (if path_eqb p [name] then Some (0%Z, total) else None).
Proof.
  unfold file_parms. destruct p as [|c [|d r]]; cbn [path_eqb]; try reflexivity.
  - rewrite andb_true_r. reflexivity.
  - destruct (bytes_eqb c name); reflexivity.
Qed.

(* the listing enumerates exactly the files within the directory *)
Lemma insert_by_in f l x : In x (insert_by f l) <-> x = f \/ In x l.
Proof.
  induction l as [|g r IH]; cbn [insert_by]; [cbn; intuition|].
  destruct (path_cmp (f_path f) (f_path g)); cbn [In]; try rewrite IH; intuition.
Qed.

Lemma sort_files_in l x : In x (sort_files l) <-> In x l.
Proof.
  induction l as [|f r IH]; cbn [sort_files fold_right]; [tauto|].
  rewrite insert_by_in. fold (sort_files r). rewrite IH. cbn. intuition.
Qed.

Lemma listing_in files dir f :
  In f (listing files dir) <-> In f files /\ within (f_path f) dir = true.
Proof. unfold listing. rewrite sort_files_in, filter_In. reflexivity. Qed.

Lemma insert_by_length f l : length (insert_by f l) = S (length l).
Proof. induction l as [|g r IH]; cbn [insert_by]; [reflexivity|]. destruct (path_cmp _ _); cbn; auto. Qed.

Lemma listing_length files dir :
  length (listing files dir) = length (filter (fun f => within (f_path f) dir) files).
Proof.
  unfold listing. induction (filter _ files) as [|f r IH]; [reflexivity|].
  cbn [sort_files fold_right]. rewrite insert_by_length. fold (sort_files r). now rewrite IH.
Qed.

(* metainfo accepted by MetadataComplete only has valid components *)
Lemma layout_valid fs : forall off acc files total,
  Forall (fun f => forallb valid_component (f_path f) = true /\ f_path f <> []) acc ->
  layout fs off acc = Some (files, total) ->
  Forall (fun f => forallb valid_component (f_path f) = true /\ f_path f <> []) files.
Proof.
  induction fs as [|f r IH]; intros off acc files total Hacc; cbn [layout].
  - intros [= <- _]. now apply Forall_rev.
  - destruct (match bf_path8 f with [] => bf_path f | _ => _ end) as [|c p] eqn:P; [discriminate|].
    destruct (negb (forallb valid_component (c :: p))) eqn:V; [discriminate|].
    destruct (_ <? 0)%Z; [discriminate|]. destruct (int64_max <? _)%Z; [discriminate|].
    apply IH. constructor; [|assumption]. cbn [f_path]. split; [now apply negb_false_iff in V|discriminate].
Qed.
