(* Proof/BencodeLocal.v — a successful bencode parse depends only on the bytes it consumes: if
   parsing u ++ r leaves r, parsing u ++ r' leaves r', with the same value and cost. *)
From Coq Require Import ZifyBool ZifyN ZifyNat.
From Storrent Require Import Base.Bytes Base.Bencode Proof.Bencode Proof.TorSlice.
Open Scope N_scope.

Lemma split_at_inv c : forall bs a b, split_at c bs = Some (a, b) -> bs = a ++ c :: b /\ ~ In c a.
Proof.
  induction bs as [|x r IH]; cbn [split_at]; intros a b H; [discriminate|].
  destruct (x =? c) eqn:E.
  - injection H as <- <-. apply N.eqb_eq in E. subst. split; [reflexivity|intros []].
  - destruct (split_at c r) as [[a' b']|] eqn:S; [|discriminate]. injection H as <- <-.
    destruct (IH _ _ eq_refl) as [-> Hn]. split; [reflexivity|]. intros [->|Hin]; [now rewrite N.eqb_refl in E|contradiction].
Qed.
Lemma split_at_first c a b : ~ In c a -> split_at c (a ++ c :: b) = Some (a, b).
Proof.
  induction a as [|x r IH]; intros Hn; cbn [app split_at]; [now rewrite N.eqb_refl|].
  destruct (x =? c) eqn:E; [apply N.eqb_eq in E; subst; exfalso; apply Hn; now left|].
  rewrite IH; [reflexivity|]. intros Hin. apply Hn. now right.
Qed.

Lemma app_same_tail {A} (u1 u2 r : list A) : u1 ++ r = u2 ++ r -> u1 = u2.
Proof. apply app_inv_tail. Qed.

(* the generic shape: a parser that is local *)
Definition local {A} (p : bytes -> bres A) : Prop :=
  forall u r v k, p (u ++ r) = BOk v r k -> forall r', p (u ++ r') = BOk v r' k.

Lemma parse_bstr_local : local parse_bstr.
Proof.
  intros u r v k H r'. unfold parse_bstr in *.
  destruct (split_at ch_colon (u ++ r)) as [[hd t]|] eqn:S; [|discriminate].
  apply split_at_inv in S as [E Hn].
  destruct (parse_int 32 hd) as [l|] eqn:P; [|discriminate]. destruct (l <? 0)%Z eqn:L; [discriminate|].
  destruct (take (Z.to_N l) t) as [[s t']|] eqn:T; [|discriminate]. injection H as <- <- <-.
  apply take_len in T as (T1 & _ & T3). subst t.
  assert (Eu : u = hd ++ ch_colon :: s).
  { apply (app_inv_tail t'). rewrite E, <- app_assoc. reflexivity. }
  subst u. rewrite <- app_assoc. cbn [app]. rewrite (split_at_first _ _ _ Hn), P, L, <- T1, take_exact. reflexivity.
Qed.

Lemma suffix_len r bs : suffix r bs -> (length r <= length bs)%nat.
Proof. intros [u ->]. rewrite app_length. lia. Qed.
Lemma suffix_same_len r bs : suffix r bs -> length r = length bs -> r = bs.
Proof. intros [u ->] H. rewrite app_length in H. destruct u; [reflexivity|cbn in H; lia]. Qed.

Section Loops.
  Variable p : bytes -> bres bval.
  Hypothesis p_local : local p.
  Hypothesis p_suf : forall bs v r k, p bs = BOk v r k -> suffix r bs.
  Hypothesis p_shr : forall bs v r k, p bs = BOk v r k -> (length r < length bs)%nat.

  Lemma list_loop_shr g : forall r acc k0 v rest k, list_loop p g r acc k0 = BOk v rest k -> (length rest < length r)%nat.
  Proof.
    induction g as [|g IH]; intros r acc k0 v rest k; cbn [list_loop]; [discriminate|].
    destruct r as [|x r']; [discriminate|]. destruct (x =? ch_e).
    - intros H; injection H as <- <- <-. cbn. lia.
    - destruct (p (x :: r')) as [v' r'' k'|e k'] eqn:P; [|discriminate]. intros H. apply IH in H. apply p_shr in P. lia.
  Qed.
  Lemma dict_loop_shr g : forall r acc k0 v rest k, dict_loop p g r acc k0 = BOk v rest k -> (length rest < length r)%nat.
  Proof.
    induction g as [|g IH]; intros r acc k0 v rest k; cbn [dict_loop]; [discriminate|].
    destruct r as [|x r']; [discriminate|]. destruct (x =? ch_e).
    - intros H; injection H as <- <- <-. cbn. lia.
    - destruct (parse_bstr (x :: r')) as [key r1 k1|e k1] eqn:S; [|discriminate].
      destruct (p r1) as [v' r2 k2|e k2] eqn:P; [|discriminate]. intros H. apply IH in H. apply p_shr in P.
      apply parse_bstr_suffix, suffix_len in S. lia.
  Qed.

  Lemma list_loop_local g : forall u r acc k0 v k, list_loop p g (u ++ r) acc k0 = BOk v r k ->
    forall r', list_loop p g (u ++ r') acc k0 = BOk v r' k.
  Proof.
    induction g as [|g IH]; intros u r acc k0 v k H r'; [discriminate|].
    destruct u as [|x u'].
    { apply list_loop_shr in H. cbn [app] in H. lia. }
    cbn [app list_loop] in *. destruct (x =? ch_e).
    - injection H as <- E <-. assert (u' = []) as -> by (destruct u'; [reflexivity|apply (f_equal (@length N)) in E; rewrite app_length in E; cbn in E; lia]).
      reflexivity.
    - destruct (p (x :: u' ++ r)) as [v1 r1 k1|e k1] eqn:P; [|discriminate].
      pose proof (p_suf _ _ _ _ P) as [u1 E1]. pose proof (list_loop_suffix p p_suf _ _ _ _ _ _ _ H) as [w Ew]. subst r1.
      assert (Eu : x :: u' = u1 ++ w) by (apply (app_inv_tail r); cbn [app]; rewrite E1, <- app_assoc; reflexivity).
      change (x :: u' ++ r) with ((x :: u') ++ r) in P. rewrite Eu, <- app_assoc in P.
      change (x :: u' ++ r') with ((x :: u') ++ r'). rewrite Eu, <- app_assoc.
      rewrite (p_local _ _ _ _ P (w ++ r')). now apply (IH w r).
  Qed.

  Lemma dict_loop_local g : forall u r acc k0 v k, dict_loop p g (u ++ r) acc k0 = BOk v r k ->
    forall r', dict_loop p g (u ++ r') acc k0 = BOk v r' k.
  Proof.
    induction g as [|g IH]; intros u r acc k0 v k H r'; [discriminate|].
    destruct u as [|x u'].
    { apply dict_loop_shr in H. cbn [app] in H. lia. }
    cbn [app dict_loop] in *. destruct (x =? ch_e).
    - injection H as <- E <-. assert (u' = []) as -> by (destruct u'; [reflexivity|apply (f_equal (@length N)) in E; rewrite app_length in E; cbn in E; lia]).
      reflexivity.
    - destruct (parse_bstr (x :: u' ++ r)) as [key r1 k1|e k1] eqn:S; [|discriminate].
      destruct (p r1) as [v1 r2 k2|e k2] eqn:P; [|discriminate].
      pose proof (parse_bstr_suffix _ _ _ _ S) as [u1 E1]. pose proof (p_suf _ _ _ _ P) as [u2 E2].
      pose proof (dict_loop_suffix p p_suf _ _ _ _ _ _ _ H) as [w Ew]. subst r2. subst r1.
      assert (Eu : x :: u' = u1 ++ u2 ++ w) by (apply (app_inv_tail r); cbn [app]; rewrite E1, <- !app_assoc; reflexivity).
      change (x :: u' ++ r) with ((x :: u') ++ r) in S. rewrite Eu, <- !app_assoc in S.
      change (x :: u' ++ r') with ((x :: u') ++ r'). rewrite Eu, <- !app_assoc.
      rewrite (parse_bstr_local _ _ _ _ S (u2 ++ w ++ r')). rewrite (p_local _ _ _ _ P (w ++ r')). now apply (IH w r).
  Qed.
End Loops.

Lemma bparse_shr f bs v r k : bparse f bs = BOk v r k -> (length r < length bs)%nat.
Proof. intros H. apply bparse_ok in H. unfold len in H. lia. Qed.

Theorem bparse_local f : local (bparse f).
Proof.
  induction f as [|f IH]; intros u r v k H r'; [discriminate|].
  destruct u as [|c u'].
  { apply bparse_shr in H. cbn [app] in H. lia. }
  cbn [app bparse] in *. destruct (c =? ch_i).
  { destruct (split_at ch_e (u' ++ r)) as [[ds t]|] eqn:S; [|discriminate]. injection H as <- <- <-.
    apply split_at_inv in S as [E Hn].
    assert (u' = ds ++ [ch_e]) as -> by (apply (app_inv_tail t); rewrite E, <- app_assoc; reflexivity).
    rewrite <- app_assoc. cbn [app]. now rewrite (split_at_first _ _ _ Hn). }
  destruct (is_digit c).
  { destruct (parse_bstr (c :: u' ++ r)) as [s t k'|e k'] eqn:S; [|discriminate]. injection H as <- <- <-.
    change (c :: u' ++ t) with ((c :: u') ++ t) in S. change (c :: u' ++ r') with ((c :: u') ++ r').
    now rewrite (parse_bstr_local _ _ _ _ S r'). }
  destruct (c =? ch_l).
  { apply (list_loop_local _ IH (bparse_suffix f) (bparse_shr f) f u' r). exact H. }
  destruct (c =? ch_d).
  { apply (dict_loop_local _ IH (bparse_suffix f) (bparse_shr f) f u' r). exact H. }
  discriminate.
Qed.
