(* Proof/Tracker.v — lemmas about Model/Tracker.v. *)
From Coq Require Import ZifyBool ZifyN ZifyNat.
From Storrent Require Import Base.Bytes Base.Bencode Model.Wire Model.Tracker.
Open Scope N_scope.

(* once an error has been recorded the retransmission loop cannot reach panic("eek") *)
Lemma udp_loop_err n : forall atts min action tid, udp_loop n atts min action tid true <> UPanic.
Proof.
  induction n as [|n IH]; intros atts min action tid; cbn [udp_loop]; [discriminate|].
  destruct atts as [|a rest]; [discriminate|].
  destruct a as [| |d]; [apply IH|apply IH|].
  destruct (len (firstn 4096 d) <? min); [apply IH|].
  destruct (read32 (firstn 4096 d)) as [[a r1]|]; [|apply IH].
  destruct (read32 r1) as [[t r2]|]; [|apply IH].
  destruct (negb (t =? tid)); [apply IH|].
  destruct (a =? 3); [discriminate|]. destruct (negb (a =? action)); discriminate.
Qed.

Lemma udp_loop_first n atts min action tid :
  atts <> [] -> udp_loop (S n) atts min action tid false <> UPanic.
Proof.
  destruct atts as [|a rest]; [congruence|]. intros _. cbn [udp_loop].
  destruct a as [| |d]; [apply udp_loop_err|apply udp_loop_err|].
  destruct (len (firstn 4096 d) <? min); [apply udp_loop_err|].
  destruct (read32 (firstn 4096 d)) as [[a r1]|]; [|apply udp_loop_err].
  destruct (read32 r1) as [[t r2]|]; [|apply udp_loop_err].
  destruct (negb (t =? tid)); [apply udp_loop_err|].
  destruct (a =? 3); [discriminate|]. destruct (negb (a =? action)); discriminate.
Qed.


Lemma udp_request_reply_total atts min action tid :
  atts <> [] -> udp_request_reply atts min action tid <> UPanic.
Proof. apply (udp_loop_first 3). Qed.

(* compact peer lists are read entry by entry, in order *)
Lemma entries_cons fuel sz e r :
  len e = sz + 2 -> e <> [] ->
  entries (S fuel) sz (e ++ r) =
  ((firstn (N.to_nat sz) e,
    (match skipn (N.to_nat sz) e with a :: b :: _ => 256 * a + b | _ => 0 end) mod 65536)
     :: fst (entries fuel sz r), snd (entries fuel sz r)).
Proof.
  intros L Ne. cbn [entries]. destruct (e ++ r) eqn:E.
  { apply app_eq_nil in E as [E _]. congruence. }
  rewrite <- E. rewrite <- L, take_exact. destruct (entries fuel sz r). reflexivity.
Qed.

(* ---------- timing ---------- *)

Lemma effective_ge i : (5 * minute <= effective i)%Z /\ (0 < i -> i <= effective i)%Z.
Proof. unfold effective, minute. destruct (i <=? 0)%Z eqn:E; lia. Qed.

Lemma announce_unlocked b now oc :
  tb_locked b = false -> tb_locked (fst (fst (announce b now oc))) = false.
Proof.
  intros L. unfold announce. rewrite L. destruct (negb (ready b now)); cbn [fst]; [exact L|].
  unfold update_interval. reflexivity.
Qed.

Lemma announce_not_contacted b now oc r :
  announce b now oc = (r, false) -> fst r = b.
Proof.
  unfold announce. destruct (tb_locked b); [intros [= <-]; reflexivity|].
  destruct (negb (ready b now)); [intros [= <-]; reflexivity|discriminate].
Qed.

(* two consecutive contacts of the same tracker are spaced by more than the effective
   interval in force after the first one *)
Lemma announce_spacing b now oc b' res now' oc' b'' res' :
  announce b now oc = (b', res, true) ->
  announce b' now' oc' = (b'', res', true) ->
  (now + effective (tb_interval b') < now')%Z.
Proof.
  unfold announce. destruct (tb_locked b); [discriminate|].
  destruct (negb (ready b now)); [discriminate|]. intros [= <- _].
  cbn [tb_locked update_interval]. destruct (negb (ready _ now')) eqn:R; [discriminate|]. intros _.
  apply negb_false_iff in R. unfold ready in R. cbn [tb_time update_interval tb_interval] in *. lia.
Qed.

(* what the first contact leaves as interval: the announced one when it exceeds a
   minute, otherwise at least 15 minutes *)
Lemma announce_interval b now oc b' res :
  announce b now oc = (b', res, true) ->
  ((minute < oc_interval oc -> tb_interval b' = oc_interval oc) /\
   (oc_interval oc <= minute -> 15 * minute <= tb_interval b'))%Z.
Proof.
  unfold announce. destruct (tb_locked b); [discriminate|].
  destruct (negb (ready b now)); [discriminate|]. intros [= <- _].
  unfold update_interval. cbn [tb_interval].
  destruct (minute <? oc_interval oc)%Z eqn:E; [split; [reflexivity|lia]|].
  split; [lia|]. intros _.
  destruct (_ <? 15 * minute)%Z eqn:E2; lia.
Qed.

Lemma get_state_busy b now : get_state b now = TBusy <-> tb_locked b = true.
Proof. unfold get_state. destruct (tb_locked b); [tauto|]. destruct (ready b now), (tb_err b); split; discriminate. Qed.
