(* Proof/Dh.v — the modular exponentiation of Base/Crypto.v computes b^e mod m, hence both ends of a
   Diffie-Hellman exchange compute the same secret. *)
From Coq Require Import NArith Lia.
From Storrent Require Import Base.Bytes Base.Crypto.
Open Scope N_scope.

Lemma pow_mod_l x c m : m <> 0 -> (x mod m) ^ c mod m = x ^ c mod m.
Proof.
  intros Hm. induction c as [|c IH] using N.peano_ind; [reflexivity|].
  rewrite !N.pow_succ_r'. rewrite N.mul_mod, IH by exact Hm. rewrite N.mod_mod by exact Hm. now rewrite <- N.mul_mod by exact Hm.
Qed.

Lemma modexp_pos_spec b m : m <> 0 -> forall e, modexp_pos b e m = b ^ (Npos e) mod m.
Proof.
  intros Hm. induction e as [e IH|e IH|]; cbn [modexp_pos].
  - rewrite IH. rewrite <- N.mul_mod by exact Hm. rewrite N.mul_mod_idemp_l by exact Hm.
    f_equal. replace (N.pos e~1) with (N.pos e + N.pos e + 1) by lia. rewrite !N.pow_add_r, N.pow_1_r. reflexivity.
  - rewrite IH. rewrite <- N.mul_mod by exact Hm. f_equal. replace (N.pos e~0) with (N.pos e + N.pos e) by lia. now rewrite N.pow_add_r.
  - now rewrite N.pow_1_r.
Qed.

Theorem modexp_spec b e m : m <> 0 -> modexp b e m = b ^ e mod m.
Proof. intros Hm. destruct e as [|p]; [reflexivity|now apply modexp_pos_spec]. Qed.

(* both ends derive the same secret from the other's public value and their own exponent *)
Theorem dh_agreement g m xa xb : m <> 0 ->
  modexp (modexp g xa m) xb m = modexp (modexp g xb m) xa m.
Proof.
  intros Hm. rewrite !modexp_spec by exact Hm. rewrite !pow_mod_l by exact Hm.
  rewrite <- !N.pow_mul_r. f_equal. f_equal. lia.
Qed.

Lemma P768_nonzero : P768 <> 0.
Proof. unfold P768. discriminate. Qed.

(* the MSE key exchange: S computed by the initiator from Yb and Xa equals S computed by the
   receiver from Ya and Xb, for all secret exponents *)
Theorem mse_secret_agrees xa xb :
  let mexp b e := modexp b e P768 in
  mexp (mexp 2 xb) xa = mexp (mexp 2 xa) xb.
Proof. cbn zeta. apply dh_agreement, P768_nonzero. Qed.
