(* Proof/Conserve.v — a peer answers every block it was commanded to request with exactly one
   TorData or TorDrop: for every step of the peer core (any message, any command, any tick, any
   oracle values) and for every block c,

       (requests for c held after the step) + (TorData / TorDrop for c emitted by the step)
     = (requests for c held before the step) + (times c occurs in the command, if it is a PeerRequest).

   On exit everything held is released. *)
From Coq Require Import ZifyBool ZifyN ZifyNat Permutation.
From Storrent Require Import Base.Bytes Base.Bencode Gen.Consts Model.Wire Model.PeerCore Proof.PeerCore.
Open Scope N_scope.

Ltac Zify.zify_post_hook ::= Z.div_mod_to_equations.

(* ---------- counting requests (independent of the geometry) ---------- *)

Definition cnt (l : list N) (c : N) : nat := count_occ N.eq_dec l c.
Definition held (r : reqs) (c : N) : nat := (cnt (rq_queue r) c + cnt (map fst (rq_requested r)) c)%nat.
Definition one (c' c : N) : nat := if N.eq_dec c' c then 1%nat else 0%nat.
Lemma cnt_app l1 l2 c : cnt (l1 ++ l2) c = (cnt l1 c + cnt l2 c)%nat.
Proof. apply count_occ_app. Qed.
Lemma cnt_cons x l c : cnt (x :: l) c = (one x c + cnt l c)%nat.
Proof. unfold cnt, one. cbn [count_occ]. destruct (N.eq_dec x c); lia. Qed.
Lemma remove_swap_perm {A} (p : A -> bool) : forall l x l',
  remove_swap p l = Some (x, l') -> Permutation l (x :: l') /\ p x = true.
Proof.
  induction l as [|y r IH]; intros x l'; cbn [remove_swap]; [discriminate|].
  destruct (p y) eqn:E.
  - intros [= <- <-]. split; [|exact E]. constructor.
    destruct (rev r) as [|lst rr] eqn:Er.
    + assert (r = []) by (destruct r; [reflexivity|apply (f_equal (@length A)) in Er; rewrite rev_length in Er; discriminate]).
      subst. constructor.
    + rewrite <- (rev_involutive r), Er. cbn [rev]. rewrite <- Permutation_cons_append. constructor. apply Permutation_refl.
  - destruct (remove_swap p r) as [[z r']|] eqn:F; [|discriminate]. intros [= <- <-].
    destruct (IH z r' eq_refl) as [P Q]. split; [|exact Q].
    apply perm_trans with (y :: z :: r'); [now constructor|constructor].
Qed.

Lemma cnt_perm l l' c : Permutation l l' -> cnt l c = cnt l' c.
Proof. intros P. unfold cnt. induction P; cbn [count_occ]; try destruct (N.eq_dec _ _); try destruct (N.eq_dec _ _); lia. Qed.

Lemma held_rq_del r c' ro r' q rr c :
  rq_del r c' ro = Some (r', q, rr) ->
  (held r' c + (if q || rr then one c' c else 0))%nat = held r c.
Proof.
  unfold rq_del. destruct (negb (rq_member r c')); [intros [= <- <- <-]; cbn; lia|].
  destruct (remove_swap (fun e => fst e =? c') (rq_requested r)) as [[x rest]|] eqn:R.
  - intros [= <- <- <-]. apply remove_swap_perm in R as [P Hx]. apply N.eqb_eq in Hx.
    unfold held. cbn [rq_queue rq_requested orb].
    rewrite (cnt_perm (map fst (rq_requested r)) (map fst (x :: rest)) c (Permutation_map fst P)).
    cbn [map]. rewrite cnt_cons, Hx. lia.
  - destruct ro; [intros [= <- <- <-]; cbn; lia|].
    destruct (remove_swap (fun e => e =? c') (rq_queue r)) as [[x rest]|] eqn:Q; [|discriminate].
    intros [= <- <- <-]. apply remove_swap_perm in Q as [P Hx]. apply N.eqb_eq in Hx.
    unfold held. cbn [rq_queue rq_requested orb].
    rewrite (cnt_perm (rq_queue r) (x :: rest) c P), cnt_cons, Hx. lia.
Qed.

Lemma held_rq_cancel r c' c : held (fst (fst (rq_cancel r c'))) c = held r c.
Proof.
  unfold rq_cancel. destruct (negb _); [reflexivity|]. destruct (find _ _) as [[x cancelled]|]; [|reflexivity].
  cbn [fst]. unfold held. cbn [rq_queue rq_requested]. f_equal. f_equal.
  rewrite map_map. apply map_ext. intros e. now destruct (fst e =? c').
Qed.

Lemma held_rq_enqueue r c' c :
  held (fst (rq_enqueue r c')) c = (held r c + (if snd (rq_enqueue r c') then one c' c else 0))%nat.
Proof.
  unfold rq_enqueue. destruct (rq_member r c'); cbn [fst snd]; [lia|].
  unfold held. cbn [rq_queue rq_requested]. rewrite cnt_app, cnt_cons. cbn. lia.
Qed.


Section Bal.
Variable g : geo.
Hypothesis Hcpp : 0 < cpp g.
Hypothesis Hps : psize g = cpp g * ChunkSize.
(* block numbers fit the 32-bit arithmetic of toChunk *)
Hypothesis H32 : num_pieces g * cpp g <= 4294967296.

Definition ev_chunks (e : tev) : list N :=
  match e with TDrop i b _ | TData i b _ _ => [i * cpp g + b / ChunkSize] | _ => [] end.
Definition cev (evs : list tev) : list N := flat_map ev_chunks evs.
Definition bal (a : acc) (c : N) : nat := (held (s_reqs (a_st a)) c + cnt (cev (a_evs a)) c)%nat.

Lemma cev_app l1 l2 : cev (l1 ++ l2) = cev l1 ++ cev l2.
Proof. apply flat_map_app. Qed.

(* what neutral operations leave alone *)
Definition np (a : acc) := (s_reqs (a_st a), cev (a_evs a), s_geo (a_st a)).

Lemma np_bal a a' c : np a' = np a -> bal a' c = bal a c.
Proof. unfold np, bal. intros [= -> -> _]. reflexivity. Qed.

Ltac np_simpl :=
  unfold np, upd_st, add_ev, add_alloc, set_legit, with_wq, with_bitmap, with_my, with_ext, with_lists,
         with_wdead, with_flags, with_requested;
  cbn [a_st a_evs s_reqs s_geo].

Lemma np_write a m : np (fst (write a m)) = np a.
Proof. unfold write. break_goal; cbn [fst]; np_simpl; reflexivity. Qed.
Lemma np_reject a i b l : np (fst (reject a i b l)) = np a.
Proof. unfold reject. destruct (s_can_fast _); [apply np_write|reflexivity]. Qed.
Lemma np_docancel a c : np (fst (docancel a c)) = np a.
Proof. unfold docancel. destruct (from_chunk _ _). apply np_write. Qed.

Lemma np_maybe_interested a : np (fst (maybe_interested a)) = np a.
Proof.
  unfold maybe_interested. destruct (Bool.eqb _ _); [reflexivity|].
  match goal with |- context [write a ?m] => pose proof (np_write a m) as H; destruct (write a m) as [a' e] end.
  cbn [fst] in H. destruct e; cbn [fst]; exact H.
Qed.

Lemma np_reject_all l : forall a, np (fst (reject_all a l)) = np a.
Proof.
  induction l as [|r t IH]; intros a; cbn [reject_all]; [reflexivity|].
  pose proof (np_reject a (u_index r) (u_begin r) (u_length r)) as H.
  destruct (reject a _ _ _) as [a' e]. cbn [fst] in H. destruct e; cbn [fst]; try exact H. now rewrite IH.
Qed.

Lemma np_unchoke a u : np (fst (unchoke a u)) = np a.
Proof.
  unfold unchoke. destruct (Bool.eqb _ _); [reflexivity|]. destruct (u && _).
  - pose proof (np_write a Unchoke) as H. destruct (write a Unchoke) as [a' e]. cbn [fst] in H.
    destruct e; cbn [fst]; exact H.
  - pose proof (np_write a Choke) as H. destruct (write a Choke) as [a' e]. cbn [fst] in H.
    destruct e; cbn [fst]; try exact H. rewrite np_reject_all. exact H.
Qed.

Lemma np_schedule_upload a allow data : np (fst (schedule_upload a allow data)) = np a.
Proof.
  unfold schedule_upload. destruct (negb _); [reflexivity|]. destruct (s_requested (a_st a)) as [|r rest]; [reflexivity|].
  destruct (congested _); [reflexivity|]. destruct (negb allow); [reflexivity|].
  destruct data as [d|].
  - match goal with |- context [write ?x ?m] => pose proof (np_write x m) as H; destruct (write x m) as [a2 e] end.
    cbn [fst] in H. destruct e; cbn [fst]; exact H.
  - rewrite np_reject. reflexivity.
Qed.

Lemma np_send_pex a : np (send_pex a) = np a.
Proof.
  unfold send_pex. destruct (_ || _); [reflexivity|]. destruct (_ && _); [reflexivity|].
  match goal with |- context [write a ?m] => pose proof (np_write a m) as H; destruct (write a m) as [a' e] end.
  cbn [fst] in H. destruct e; exact H.
Qed.

Lemma np_retract_bitmap a : np (retract_bitmap a) = np a.
Proof. unfold retract_bitmap. destruct (s_bitmap _); np_simpl; [|reflexivity]. rewrite cev_app. cbn. now rewrite app_nil_r. Qed.

(* ---------- geometry: a dropped block is reported as itself ---------- *)

Lemma chunk_roundtrip c : fst (from_chunk g c) * cpp g + snd (from_chunk g c) / ChunkSize = c.
Proof.
  unfold from_chunk. cbn [fst snd]. rewrite Hps.
  assert (HCS : 0 < ChunkSize) by (unfold ChunkSize; lia).
  rewrite N.mul_mod_distr_r by lia. rewrite N.div_mul by lia.
  pose proof (N.div_mod c (cpp g) ltac:(lia)). lia.
Qed.

Definition geo_ok (a : acc) := s_geo (a_st a) = Some g.

Lemma bal_drop a c' c : geo_ok a -> bal (drop a c') c = (bal a c + one c' c)%nat.
Proof.
  unfold geo_ok, drop, the_geo. intros ->. pose proof (chunk_roundtrip c') as R.
  destruct (from_chunk g c') as [i b]. cbn [fst snd] in R.
  unfold bal, add_ev. cbn [a_st a_evs]. rewrite cev_app, cnt_app. cbn [cev flat_map ev_chunks app].
  rewrite R. rewrite cnt_cons. cbn. lia.
Qed.

Lemma geo_drop a c : geo_ok (drop a c) <-> geo_ok a.
Proof. unfold geo_ok. now rewrite drop_st. Qed.

Lemma np_geo a a' : np a' = np a -> geo_ok a -> geo_ok a'.
Proof. unfold np, geo_ok. intros [= _ _ ->]. auto. Qed.

(* ---------- the request queue ---------- *)

Lemma bal_with_reqs a r c : bal (upd_st a (with_reqs (a_st a) r)) c = (held r c + cnt (cev (a_evs a)) c)%nat.
Proof. reflexivity. Qed.
Lemma geo_with_reqs a r : geo_ok (upd_st a (with_reqs (a_st a) r)) <-> geo_ok a.
Proof. reflexivity. Qed.

(* ---------- maybeRequest moves queued requests to requested, or drops them ---------- *)

Lemma mr_loop_bal k : forall a c, geo_ok a -> bal (mr_loop k a) c = bal a c /\ geo_ok (mr_loop k a).
Proof.
  induction k as [|k IH]; intros a c G; cbn [mr_loop].
  - split; [reflexivity|exact G].
  - destruct (rq_queue (s_reqs (a_st a))) as [|index qrest] eqn:Q; [split; [reflexivity|exact G]|].
    destruct (congested _ || _); [split; [reflexivity|exact G]|].
    destruct (from_chunk _ index) as [i b].
    set (a1 := upd_st a (with_reqs (a_st a) {| rq_queue := qrest; rq_requested := rq_requested (s_reqs (a_st a)) |})).
    assert (G1 : geo_ok a1) by exact G.
    assert (B1 : (bal a1 c + one index c)%nat = bal a c).
    { unfold a1. rewrite bal_with_reqs. unfold bal, held. cbn [rq_queue rq_requested]. rewrite Q, cnt_cons. lia. }
    destruct (_ || _).
    + destruct (IH (drop a1 index) c) as [B2 G2]; [now apply geo_drop|].
      split; [|exact G2]. rewrite B2, bal_drop by exact G1. lia.
    + destruct (write a1 _) as [a2 e] eqn:W.
      match type of W with write ?x ?m = _ => pose proof (np_write x m) as H; rewrite W in H; cbn [fst] in H end.
      assert (G2 : geo_ok a2) by (eapply np_geo; [exact H|exact G1]).
      destruct e.
      * match goal with |- context [mr_loop k ?x] => destruct (IH x c) as [B3 G3]; [exact G2|] end.
        split; [|exact G3]. rewrite B3, bal_with_reqs.
        assert (Hr : s_reqs (a_st a2) = s_reqs (a_st a1)) by (unfold np in H; congruence).
        assert (Hev : cev (a_evs a2) = cev (a_evs a1)) by (unfold np in H; congruence).
        rewrite Hr, Hev. unfold a1 at 1 2. cbn [upd_st a_st with_reqs s_reqs rq_queue rq_requested].
        unfold held. cbn [rq_queue rq_requested]. rewrite map_app, cnt_app. cbn [map fst]. rewrite cnt_cons.
        revert B1. unfold a1. rewrite bal_with_reqs. unfold held. cbn [rq_queue rq_requested a_evs upd_st].
        change (cnt [] c) with 0%nat. lia.
      * split; [|unfold set_legit; cbn [a_st]; now apply geo_drop].
        unfold set_legit. change (bal (drop a2 index) c = bal a c). rewrite bal_drop by exact G2.
        rewrite (np_bal a1 a2 c H). lia.
      * split; [|unfold set_legit; cbn [a_st]; now apply geo_drop].
        unfold set_legit. change (bal (drop a2 index) c = bal a c). rewrite bal_drop by exact G2.
        rewrite (np_bal a1 a2 c H). lia.
Qed.

Lemma maybe_request_bal k a c : geo_ok a -> bal (maybe_request k a) c = bal a c /\ geo_ok (maybe_request k a).
Proof. intros G. unfold maybe_request. destruct (_ && _); [split; [reflexivity|exact G]|now apply mr_loop_bal]. Qed.

(* ---------- commands ---------- *)

Lemma enqueue_all_bal cs : forall a c, geo_ok a ->
  bal (enqueue_all a cs) c = (bal a c + cnt cs c)%nat /\ geo_ok (enqueue_all a cs).
Proof.
  induction cs as [|c' r IH]; intros a c G; cbn [enqueue_all]; [split; [cbn; lia|exact G]|].
  destruct (from_chunk _ c') as [i b]. rewrite cnt_cons. destruct (bm_get _ _).
  - pose proof (held_rq_enqueue (s_reqs (a_st a)) c' c) as E.
    destruct (rq_enqueue (s_reqs (a_st a)) c') as [rq done]. cbn [fst snd] in E.
    set (a1 := upd_st a (with_reqs (a_st a) rq)).
    assert (G1 : geo_ok a1) by exact G.
    assert (B1 : bal a1 c = (bal a c + (if done then one c' c else 0))%nat).
    { unfold a1. rewrite bal_with_reqs. unfold bal. lia. }
    destruct done.
    + destruct (IH a1 c G1) as [B G2]. split; [lia|exact G2].
    + destruct (IH (drop a1 c') c) as [B G2]; [now apply geo_drop|]. split; [|exact G2].
      rewrite B, bal_drop by exact G1. lia.
  - destruct (IH (drop a c') c) as [B G2]; [now apply geo_drop|]. split; [|exact G2].
    rewrite B, bal_drop by exact G. lia.
Qed.

Lemma cancel_chunk_bal a c' a' c : geo_ok a -> cancel_chunk a c' = Some a' -> bal a' c = bal a c /\ geo_ok a'.
Proof.
  intros G. unfold cancel_chunk.
  pose proof (held_rq_cancel (s_reqs (a_st a)) c' c) as HC.
  destruct (rq_cancel (s_reqs (a_st a)) c') as [[r1 found] docan]. cbn [fst] in HC.
  destruct found.
  - intros [= <-]. set (a1 := upd_st a (with_reqs (a_st a) r1)).
    assert (B1 : bal a1 c = bal a c) by (unfold a1; rewrite bal_with_reqs; unfold bal; lia).
    destruct docan; [|split; [exact B1|exact G]].
    split; [rewrite (np_bal _ _ c (np_docancel a1 c')); exact B1|eapply np_geo; [apply np_docancel|exact G]].
  - pose proof (held_rq_del (s_reqs (a_st a)) c' false) as HD.
    destruct (rq_del (s_reqs (a_st a)) c' false) as [[[r2 q] r]|]; [|discriminate].
    specialize (HD r2 q r c eq_refl).
    set (a1 := upd_st a (with_reqs (a_st a) r2)).
    assert (B1 : (bal a1 c + (if q || r then one c' c else 0))%nat = bal a c).
    { unfold a1. rewrite bal_with_reqs. unfold bal. lia. }
    destruct (q || r) eqn:E; intros [= <-]; [|split; [lia|exact G]].
    destruct r.
    + split; [|apply geo_drop; eapply np_geo; [apply np_docancel|exact G]].
      rewrite bal_drop by (eapply np_geo; [apply np_docancel|exact G]).
      rewrite (np_bal _ _ c (np_docancel a1 c')). lia.
    + split; [|now apply geo_drop]. rewrite bal_drop by exact G. lia.
Qed.

Lemma cancel_many_bal cs : forall a a' c, geo_ok a -> cancel_many a cs = Some a' -> bal a' c = bal a c /\ geo_ok a'.
Proof.
  induction cs as [|c' r IH]; intros a a' c G; cbn [cancel_many]; [intros [= <-]; now split|].
  destruct (cancel_chunk a c') as [a1|] eqn:C; [|discriminate].
  destruct (cancel_chunk_bal a c' a1 c G C) as [B1 G1]. intros H.
  destruct (IH a1 a' c G1 H) as [B2 G2]. split; [lia|exact G2].
Qed.

(* ---------- clearing ---------- *)

Lemma fold_drop_bal l : forall a c, geo_ok a ->
  bal (fold_left drop l a) c = (bal a c + cnt l c)%nat /\ geo_ok (fold_left drop l a).
Proof.
  induction l as [|x r IH]; intros a c G; cbn [fold_left]; [split; [cbn; lia|exact G]|].
  destruct (IH (drop a x) c) as [B G2]; [now apply geo_drop|]. split; [|exact G2].
  rewrite B, bal_drop, cnt_cons by exact G. lia.
Qed.

Lemma fold_drop_st_reqs l : forall a, s_reqs (a_st (fold_left drop l a)) = s_reqs (a_st a).
Proof. induction l as [|x r IH]; intros a; cbn [fold_left]; [reflexivity|]. now rewrite IH, drop_st. Qed.

Lemma clear_requests_bal a both c : geo_ok a ->
  bal (clear_requests a both) c = bal a c /\ geo_ok (clear_requests a both) /\
  (both = true -> held (s_reqs (a_st (clear_requests a both))) c = 0%nat).
Proof.
  intros G. unfold clear_requests.
  set (rq := s_reqs (a_st a)).
  set (a1 := upd_st a (with_reqs (a_st a) (if both then reqs_nil else {| rq_queue := []; rq_requested := rq_requested rq |}))).
  assert (G1 : geo_ok a1) by exact G.
  destruct both.
  - destruct (fold_drop_bal (map fst (rq_requested rq)) a1 c G1) as [B2 G2].
    destruct (fold_drop_bal (rq_queue rq) _ c G2) as [B3 G3].
    split; [|split; [exact G3|]].
    + rewrite B3, B2. unfold a1. rewrite bal_with_reqs. unfold bal, held, rq, reqs_nil.
      cbn [rq_queue rq_requested map]. change (cnt [] c) with 0%nat. lia.
    + intros _. rewrite !fold_drop_st_reqs. reflexivity.
  - destruct (fold_drop_bal (rq_queue rq) a1 c G1) as [B3 G3].
    split; [|split; [exact G3|discriminate]].
    rewrite B3. unfold a1. rewrite bal_with_reqs. unfold bal, held, rq.
    cbn [rq_queue rq_requested map]. change (cnt [] c) with 0%nat. lia.
Qed.

(* ---------- the periodic tick ---------- *)

Lemma expire_loop_bal fuel : forall i a drops cancels d c, geo_ok a ->
  bal (fst (expire_loop fuel i a drops cancels d)) c = bal a c /\ geo_ok (fst (expire_loop fuel i a drops cancels d)).
Proof.
  induction fuel as [|f IH]; intros i a drops cancels d c G; cbn [expire_loop]; [split; [reflexivity|exact G]|].
  destruct (nth_error _ i) as [[c0 cancelled]|]; [|split; [reflexivity|exact G]].
  destruct (cancelled && memN c0 drops).
  - destruct (remove_swap _ _) as [[x rest]|] eqn:R; [|split; [reflexivity|exact G]].
    apply remove_swap_perm in R as [P Hx]. apply N.eqb_eq in Hx.
    set (a1 := upd_st a (with_reqs (a_st a) {| rq_queue := rq_queue (s_reqs (a_st a)); rq_requested := rest |})).
    destruct (IH i (drop a1 c0) drops cancels true c) as [B G2]; [now apply geo_drop|]. split; [|exact G2].
    rewrite B, bal_drop by exact G. unfold a1. rewrite bal_with_reqs. unfold bal, held. cbn [rq_queue rq_requested].
    rewrite (cnt_perm (map fst (rq_requested (s_reqs (a_st a)))) (map fst (x :: rest)) c (Permutation_map fst P)).
    cbn [map]. rewrite cnt_cons, Hx. lia.
  - destruct (negb cancelled && memN c0 cancels); [|now apply IH].
    match goal with |- context [docancel ?x c0] => set (a1 := x) end.
    assert (B1 : bal a1 c = bal a c).
    { unfold a1. rewrite bal_with_reqs. unfold bal, held. cbn [rq_queue rq_requested]. f_equal. f_equal. f_equal.
      rewrite map_map. apply map_ext. intros e. now destruct (fst e =? c0). }
    destruct (IH (S i) (fst (docancel a1 c0)) drops cancels d c) as [B G2].
    { eapply np_geo; [apply np_docancel|exact G]. }
    split; [|exact G2]. rewrite B, (np_bal _ _ c (np_docancel a1 c0)). exact B1.
Qed.

Lemma tick_bal a drops cancels k c : geo_ok a -> bal (tick a drops cancels k) c = bal a c /\ geo_ok (tick a drops cancels k).
Proof.
  intros G. unfold tick. destruct (rq_requested _) as [|x l] eqn:E; [split; [reflexivity|exact G]|].
  pose proof (expire_loop_bal (2 * length (x :: l) + 2) 0 a drops cancels false c G) as [B G1].
  destruct (expire_loop _ 0 a drops cancels false) as [a1 dropped]. cbn [fst] in B, G1.
  destruct dropped; [|split; [exact B|exact G1]].
  destruct (maybe_request_bal k a1 c G1) as [B2 G2]. split; [lia|exact G2].
Qed.

(* ---------- commands from the torrent ---------- *)

Definition cmd (e : pevent) (c : N) : nat := match e with PeerRequest chunks => cnt chunks c | _ => 0%nat end.

Ltac np_facts :=
  repeat match goal with
  | H : write ?x ?m = (?y, _) |- _ =>
      let F := fresh "F" in pose proof (np_write x m) as F; rewrite H in F; cbn [fst] in F; clear H
  | H : reject ?x ?i ?b ?l = (?y, _) |- _ =>
      let F := fresh "F" in pose proof (np_reject x i b l) as F; rewrite H in F; cbn [fst] in F; clear H
  | H : unchoke ?x ?u = (?y, _) |- _ =>
      let F := fresh "F" in pose proof (np_unchoke x u) as F; rewrite H in F; cbn [fst] in F; clear H
  end.

Ltac np_peel :=
  repeat first
    [ reflexivity
    | eassumption
    | etransitivity;
      [ first [ apply np_maybe_interested | apply np_write | apply np_reject | apply np_docancel
              | apply np_send_pex | apply np_retract_bitmap | apply np_unchoke | apply np_schedule_upload
              | eassumption ] | ]
    | progress (np_simpl; rewrite ?cev_app; cbn [cev flat_map ev_chunks app]; rewrite ?app_nil_r) ].

Lemma handle_event_bal a e k c : geo_ok a ->
  bal (fst (handle_event a e k)) c = (bal a c + cmd e c)%nat /\ geo_ok (fst (handle_event a e k)).
Proof.
  intros G. pose proof G as G'. unfold geo_ok in G'.
  assert (N0 : forall x, np x = np a -> bal x c = (bal a c + 0)%nat /\ geo_ok x).
  { intros x H. split; [rewrite (np_bal a x c H); lia|eapply np_geo; [exact H|exact G]]. }
  destruct e; cbn [handle_event cmd]; unfold ok, of_werr; rewrite ?G'.
  - (* PeerMetadataComplete: the geometry is already known *) cbn [fst]. now apply N0.
  - (* PeerRequest *)
    cbn [fst]. destruct (enqueue_all_bal chunks a c G) as [B1 G1].
    destruct (maybe_request_bal k (enqueue_all a chunks) c G1) as [B2 G2]. split; [lia|exact G2].
  - (* PeerHave *) apply N0. break_goal; cbn [fst]; np_facts; np_peel.
  - (* PeerCancel *)
    destruct (cancel_chunk a c0) as [a'|] eqn:C; cbn [fst]; [|now apply N0].
    destruct (cancel_chunk_bal a c0 a' c G C) as [B1 G1]. split; [lia|exact G1].
  - (* PeerCancelPiece *)
    destruct (cancel_many a _) as [a'|] eqn:C; cbn [fst]; [|now apply N0].
    destruct (cancel_many_bal _ a a' c G C) as [B1 G1]. split; [lia|exact G1].
  - (* PeerInterested *) apply N0. cbn [fst]. np_peel.
  - (* PeerGetMetadata *) apply N0. break_goal; cbn [fst]; np_peel.
  - (* PeerPex *) apply N0. break_goal; cbn [fst]; np_peel.
  - (* PeerUnchoke *) apply N0. break_goal; cbn [fst]; np_facts; np_peel.
  - (* PeerDone *) cbn [fst]. now apply N0.
Qed.

(* ---------- messages from the remote peer ---------- *)

Definition reqs_neutral (m : msg) : bool :=
  match m with Choke | Piece _ _ _ | RejectRequest _ _ _ => false | _ => true end.

Lemma handle_message_np a m k ad : reqs_neutral m = true -> np (fst (handle_message a m k ad)) = np a.
Proof.
  destruct m; cbn [reqs_neutral]; try discriminate; intros _.
  7: { (* Request: the upload queue *)
    cbn [handle_message]. destruct (_ || _); [unfold of_werr; destruct (snd _); cbn [fst]; apply np_reject|].
    destruct (upload_queue_max <=? _).
    - destruct (s_requested (a_st a)) as [|h t].
      + cbn [fst]. unfold ok. cbn [fst]. np_peel.
      + match goal with |- context [reject ?x ?i ?b ?l] => pose proof (np_reject x i b l) as H; destruct (reject x i b l) as [a1 e] end.
        cbn [fst] in H. destruct e; cbn [negb fst]; unfold ok; cbn [fst]; (etransitivity; [|exact H]); np_peel.
    - cbn [negb]. unfold ok. cbn [fst]. np_peel. }
  all: cbn [handle_message]; unfold ok, of_werr; break_goal; cbn [fst snd]; np_facts; np_peel.
Qed.

(* an accepted block lies inside its piece (Pieces.AddData refuses anything else) *)
Definition piece_legit (m : msg) (ad : option bool) : Prop :=
  match m, ad with Piece i b d, Some _ => b < psize g | _, _ => True end.

Lemma to_chunk_plain i b : i < num_pieces g -> b < psize g -> to_chunk g i b = i * cpp g + b / ChunkSize.
Proof.
  intros Hi Hb. unfold to_chunk.
  assert (HCS : 0 < ChunkSize) by (unfold ChunkSize; lia).
  assert (Hbc : b / ChunkSize < cpp g) by (apply N.div_lt_upper_bound; lia).
  assert (Hle : (i + 1) * cpp g <= num_pieces g * cpp g) by (apply N.mul_le_mono_r; lia).
  assert (Hsum : i * cpp g + b / ChunkSize < 4294967296) by lia.
  destruct (4294967295 / cpp g <? i) eqn:E.
  - exfalso. assert (4294967295 / cpp g < i) by lia.
    assert (4294967295 < i * cpp g).
    { pose proof (N.div_mod 4294967295 (cpp g) ltac:(lia)). pose proof (N.mod_lt 4294967295 (cpp g) ltac:(lia)).
      assert ((4294967295 / cpp g + 1) * cpp g <= i * cpp g) by (apply N.mul_le_mono_r; lia). lia. }
    lia.
  - apply N.mod_small. lia.
Qed.

Lemma handle_message_bal a m k ad c : geo_ok a -> piece_legit m ad ->
  bal (fst (handle_message a m k ad)) c = bal a c /\ geo_ok (fst (handle_message a m k ad)).
Proof.
  intros G L. pose proof G as G'. unfold geo_ok in G'.
  destruct (reqs_neutral m) eqn:Nm.
  { pose proof (handle_message_np a m k ad Nm) as H. split; [now apply np_bal|eapply np_geo; [exact H|exact G]]. }
  destruct m; try discriminate; cbn [handle_message]; unfold ok; rewrite ?G'.
  - (* Choke *)
    cbn [fst].
    match goal with |- context [clear_requests ?x ?b] => destruct (clear_requests_bal x b c) as (B & G1 & _); [exact G|] end.
    split; [|exact G1]. etransitivity; [|exact B]. unfold bal, add_ev. cbn [a_st a_evs].
    rewrite cev_app. cbn [cev flat_map ev_chunks app]. now rewrite app_nil_r.
  - (* Piece *)
    destruct (num_pieces g <=? i) eqn:Hi; [cbn [fst]; now split|].
    pose proof (held_rq_del (s_reqs (a_st a)) (to_chunk g i b) false) as HD.
    destruct (rq_del (s_reqs (a_st a)) (to_chunk g i b) false) as [[[rq q] r]|]; [|cbn [fst]; now split].
    specialize (HD rq q r c eq_refl). cbn [fst].
    set (a1 := upd_st a (with_reqs (a_st a) rq)).
    assert (G1 : geo_ok a1) by exact G.
    assert (B1 : (bal a1 c + (if q || r then one (to_chunk g i b) c else 0))%nat = bal a c).
    { unfold a1. rewrite bal_with_reqs. unfold bal. lia. }
    match goal with |- context [maybe_request k ?x] => set (a2 := x) end.
    assert (H2 : bal a2 c = bal a c /\ geo_ok a2).
    { subst a2. rewrite (orb_comm r q). destruct (q || r).
      - destruct (len d =? chunk_size g (to_chunk g i b)).
        + destruct ad as [complete|].
          * cbn in L. split; [|exact G1].
            unfold bal, add_ev. cbn [a_st a_evs]. rewrite cev_app, cnt_app. cbn [cev flat_map ev_chunks app].
            rewrite <- (to_chunk_plain i b) by lia. rewrite cnt_cons. change (cnt [] c) with 0%nat.
            unfold bal in B1. lia.
          * split; [rewrite bal_drop by exact G1; lia|now apply geo_drop].
        + split; [|apply geo_drop; exact G1].
          rewrite bal_drop by exact G1. unfold bal, set_legit in *. cbn [a_st a_evs] in *. lia.
      - split; [lia|exact G1]. }
    destruct H2 as [B2 G2]. destruct (maybe_request_bal k a2 c G2) as [B3 G3]. split; [lia|exact G3].
  - (* RejectRequest *)
    destruct (negb (s_can_fast (a_st a))); [cbn [fst]; now split|].
    pose proof (held_rq_del (s_reqs (a_st a)) (to_chunk g i b) true) as HD.
    destruct (rq_del (s_reqs (a_st a)) (to_chunk g i b) true) as [[[rq q] r]|] eqn:RD; [|cbn [fst]; now split].
    specialize (HD rq q r c eq_refl). cbn [fst].
    set (a1 := upd_st a (with_reqs (a_st a) rq)).
    assert (G1 : geo_ok a1) by exact G.
    assert (Hq : q = false).
    { revert RD. unfold rq_del. destruct (negb _); [now intros [= _ <- _]|].
      destruct (remove_swap _ (rq_requested _)) as [[x rest]|]; now intros [= _ <- _]. }
    subst q. cbn [orb] in HD.
    assert (B1 : (bal a1 c + (if r then one (to_chunk g i b) c else 0))%nat = bal a c).
    { unfold a1. rewrite bal_with_reqs. unfold bal. lia. }
    match goal with |- context [maybe_request k ?x] => set (a2 := x) end.
    assert (H2 : bal a2 c = bal a c /\ geo_ok a2).
    { subst a2. destruct r; [split; [rewrite bal_drop by exact G1; lia|now apply geo_drop]|split; [lia|exact G1]]. }
    destruct H2 as [B2 G2]. destruct (maybe_request_bal k a2 c G2) as [B3 G3]. split; [lia|exact G3].
Qed.

(* ---------- one step of the core, and the exit ---------- *)

Definition op_cmd (o : op) (c : N) : nat := match o with OpEv e => cmd e c | _ => 0%nat end.
Definition op_legit (o : op) : Prop := match o with OpMsg m ad => piece_legit m ad | _ => True end.

Lemma bal_acc0 s c : bal (acc0 s) c = held (s_reqs s) c.
Proof. unfold bal, acc0. cbn [a_st a_evs cev flat_map]. change (cnt [] c) with 0%nat. lia. Qed.

Lemma bal_set_legit x b c : bal (set_legit x b) c = bal x c.
Proof. reflexivity. Qed.

Theorem step_conserves s ballast o k c :
  s_geo s = Some g -> op_legit o ->
  bal (fst (step s ballast o k)) c = (held (s_reqs s) c + op_cmd o c)%nat /\
  s_geo (a_st (fst (step s ballast o k))) = Some g.
Proof.
  intros Hg L. unfold step.
  set (s0 := if s_wdead s then s else with_wq s ballast).
  assert (G0 : geo_ok (acc0 s0)) by (unfold geo_ok, acc0; cbn [a_st]; subst s0; destruct (s_wdead s); exact Hg).
  assert (B0 : bal (acc0 s0) c = held (s_reqs s) c) by (rewrite bal_acc0; subst s0; now destruct (s_wdead s)).
  assert (SL : forall (x : res) b, bal (fst (set_legit (fst x) b, snd x)) c = bal (fst x) c /\
                                  (geo_ok (fst x) -> geo_ok (fst (set_legit (fst x) b, snd x)))).
  { intros x b. split; [reflexivity|auto]. }
  destruct o as [m ad|e|drops cancels| |allow data|]; cbn [op_cmd op_legit] in *.
  - assert (H : bal (fst (handle_message (acc0 s0) m k ad)) c = bal (acc0 s0) c /\ geo_ok (fst (handle_message (acc0 s0) m k ad)))
      by (now apply handle_message_bal).
    assert (H' : bal (fst (handle_message (acc0 s0) m 0 ad)) c = bal (acc0 s0) c /\ geo_ok (fst (handle_message (acc0 s0) m 0 ad)))
      by (now apply handle_message_bal).
    destruct H as [H1 H2], H' as [H1' H2'].
    destruct m; cbn [fst]; rewrite ?bal_set_legit;
      first [split; [rewrite H1; lia|exact H2] | split; [rewrite H1'; lia|exact H2']].
  - pose proof (handle_event_bal (acc0 s0) e k c G0) as [H1 H2].
    pose proof (handle_event_bal (acc0 s0) e 0 c G0) as [H1' H2'].
    destruct e; cbn [fst]; rewrite ?bal_set_legit;
      first [split; [rewrite H1; cbn [cmd]; lia|exact H2] | split; [rewrite H1'; cbn [cmd]; lia|exact H2']].
  - unfold ok. cbn [fst]. destruct (tick_bal (acc0 s0) drops cancels k c G0) as [B G1]. split; [lia|exact G1].
  - unfold ok. cbn [fst]. unfold set_legit. cbn [a_st].
    split; [change (bal (send_pex (acc0 s0)) c = (held (s_reqs s) c + 0)%nat); rewrite (np_bal _ _ c (np_send_pex (acc0 s0))); lia
           |exact (np_geo _ _ (np_send_pex (acc0 s0)) G0)].
  - cbn [fst]. unfold of_werr. pose proof (np_schedule_upload (acc0 s0) allow data) as H.
    destruct (snd (schedule_upload (acc0 s0) allow data)); cbn [fst]; unfold set_legit; cbn [a_st];
      (split; [change (bal (fst (schedule_upload (acc0 s0) allow data)) c = (held (s_reqs s) c + 0)%nat); rewrite (np_bal _ _ c H); lia
              |exact (np_geo _ _ H G0)]).
  - unfold ok. cbn [fst]. split; [|exact G0]. rewrite <- B0, Nat.add_0_r. reflexivity.
Qed.

(* what Run's deferred exit does with the requests: everything held is released *)
Theorem exit_releases s c :
  s_geo s = Some g ->
  let a := clear_requests (acc0 s) true in
  cnt (cev (a_evs a)) c = held (s_reqs s) c /\ held (s_reqs (a_st a)) c = 0%nat.
Proof.
  intros Hg a. destruct (clear_requests_bal (acc0 s) true c) as (B & _ & Z); [exact Hg|].
  specialize (Z eq_refl). fold a in B, Z. rewrite bal_acc0 in B. unfold bal in B. split; [lia|exact Z].
Qed.

End Bal.
