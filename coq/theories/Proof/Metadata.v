(* Proof/Metadata.v — the metadata exchange never publishes forged metadata and never
   crashes, whatever peers send. *)
From Coq Require Import ZifyBool ZifyN ZifyNat.
From Storrent Require Import Base.Bytes Base.Bencode Gen.Consts Model.Wire Model.Torfile Model.Metadata Proof.Torfile.
Open Scope N_scope.

Ltac Zify.zify_post_hook ::= Z.div_mod_to_equations.

Section Proofs.
  Variable H : bytes -> bytes.
  Variable ihash : bytes.

  (* complete only with a dictionary whose digest is the info-hash and which parses *)
  Definition auth_inv (st : mstate) : Prop :=
    match ms_complete st with
    | Some g => exists info, ms_info st = Some info /\ H info = ihash /\ metadata_complete info = MOk g
    | None => True
    end.

  (* the buffer always has one slot per 16 KiB block of its size *)
  Definition size_inv (st : mstate) : Prop :=
    ms_complete st = None -> N.of_nat (length (ms_blocks st)) = nblocks (ms_size st).

  Lemma set_nth_length {A} n (x : A) l : length (set_nth n x l) = length l.
  Proof. revert n; induction l as [|y r IH]; intros [|n]; cbn; auto. Qed.

  Lemma vote_inv st size : auth_inv st -> size_inv st ->
    auth_inv (fst (vote st size)) /\ size_inv (fst (vote st size)).
  Proof.
    intros A S. unfold vote. destruct (ms_complete st) eqn:C; [cbn [fst]; auto|].
    destruct (_ || _); cbn [fst]; [auto|].
    split; [unfold auth_inv; cbn; exact I|]. unfold size_inv in *. cbn. intros _. now apply S.
  Qed.

  Lemma request_inv st g : auth_inv st -> size_inv st -> auth_inv (request st g) /\ size_inv (request st g).
  Proof.
    intros A S. unfold request. destruct (ms_complete st) eqn:C; [auto|].
    destruct (g =? 0); [auto|]. destruct (ms_size st =? g); [auto|]. destruct (max_metadata <? g); [auto|].
    split; [unfold auth_inv; cbn; exact I|]. unfold size_inv. cbn. intros _. rewrite repeat_length. lia.
  Qed.

  Lemma reset_inv st : auth_inv (reset st) /\ size_inv (reset st).
  Proof. split; [unfold auth_inv; cbn; exact I|]. unfold size_inv. cbn. intros _. reflexivity. Qed.

  Lemma got_inv st index size data :
    auth_inv st -> size_inv st ->
    auth_inv (fst (got H ihash st index size data)) /\ size_inv (fst (got H ihash st index size data)) /\
    snd (got H ihash st index size data) <> GPanic.
  Proof.
    intros A S. unfold got. destruct (ms_complete st) eqn:C; [cbn; repeat split; auto; discriminate|].
    destruct (negb (size =? ms_size st)); [cbn; repeat split; auto; discriminate|].
    destruct (N.of_nat (length (ms_blocks st)) <=? index) eqn:IX; [cbn; repeat split; auto; discriminate|].
    destruct (_ && _); [cbn; repeat split; auto; discriminate|].
    assert (Hroom : (ms_size st <? index * mblock) = false).
    { specialize (S C). unfold nblocks, mblock in *. lia. }
    assert (Store : forall stored,
      let bs := set_nth (N.to_nat index) (Some stored) (ms_blocks st) in
      let r := if negb (all_present bs)
               then ({| ms_complete := None; ms_info := None; ms_size := ms_size st; ms_blocks := bs; ms_votes := ms_votes st |}, GMore)
               else if negb (bytes_eqb (H (assemble bs)) ihash) then (reset st, GErr)
               else match metadata_complete (assemble bs) with
                    | MOk g => ({| ms_complete := Some g; ms_info := Some (assemble bs); ms_size := ms_size st;
                                   ms_blocks := []; ms_votes := [] |}, GDone)
                    | MErr => (reset st, GErr)
                    | MPanic => (reset st, GPanic)
                    end in
      auth_inv (fst r) /\ size_inv (fst r) /\ snd r <> GPanic).
    { intros stored bs r. subst r.
      destruct (negb (all_present bs)).
      - cbn [fst snd]. split; [exact I|]. split; [|discriminate].
        unfold size_inv. cbn. intros _. subst bs. rewrite set_nth_length. now apply S.
      - destruct (negb (bytes_eqb _ ihash)) eqn:HH.
        + cbn [fst snd]. destruct (reset_inv st). split; [assumption|]. split; [assumption|discriminate].
        + apply negb_false_iff, bytes_eqb_eq in HH.
          destruct (metadata_complete (assemble bs)) as [g| |] eqn:MC.
          * cbn [fst snd]. split; [|split; [unfold size_inv; cbn; discriminate|discriminate]].
            unfold auth_inv. cbn. exists (assemble bs). auto.
          * cbn [fst snd]. destruct (reset_inv st). split; [assumption|]. split; [assumption|discriminate].
          * now apply metadata_complete_no_panic in MC. }
    destruct (nth_error (ms_blocks st) (N.to_nat index)) as [[d|]|].
    - cbn [fst snd]. split; [assumption|]. split; [assumption|discriminate].
    - rewrite Hroom. apply Store.
    - rewrite Hroom. apply Store.
  Qed.

  Definition minv st := auth_inv st /\ size_inv st.

  Lemma mstep_inv st o :
    minv st -> minv (fst (fst (mstep H ihash st o))) /\ snd (fst (mstep H ihash st o)) <> GPanic.
  Proof.
    intros [A S]. destruct o; cbn [mstep].
    - destruct (ms_complete st) eqn:C; [cbn; repeat split; auto; discriminate|].
      destruct (size =? 0); [cbn; repeat split; auto; discriminate|].
      destruct (vote st size) as [st1 ok] eqn:V.
      pose proof (vote_inv st size A S) as [A1 S1]. rewrite V in A1, S1. cbn [fst] in A1, S1.
      destruct ok; cbn [fst snd]; [|repeat split; auto; discriminate].
      destruct (request_inv st1 guess A1 S1). repeat split; auto; discriminate.
    - destruct (ms_complete st) eqn:C; [cbn; repeat split; auto; discriminate|].
      cbn [fst snd]. destruct (request_inv st guess A S). repeat split; auto; discriminate.
    - destruct (ms_complete st) eqn:C; [cbn; repeat split; auto; discriminate|].
      destruct (got H ihash st index size data) as [st1 r] eqn:G.
      pose proof (got_inv st index size data A S) as (A1 & S1 & NP). rewrite G in A1, S1, NP. cbn [fst snd] in *.
      destruct r; cbn [fst snd];
        try (destruct (request_inv st1 guess A1 S1)); repeat split; auto; try discriminate.
  Qed.

  Fixpoint mrun (st : mstate) (ops : list mop) : mstate :=
    match ops with [] => st | o :: r => mrun (fst (fst (mstep H ihash st o))) r end.

  Lemma init_minv : minv ms_init.
  Proof. split; [exact I|]. unfold size_inv. reflexivity. Qed.

  Lemma mrun_inv ops : forall st, minv st -> minv (mrun st ops).
  Proof. induction ops as [|o r IH]; intros st I; cbn [mrun]; [exact I|]. apply IH. now apply mstep_inv. Qed.

  Theorem metadata_authentic ops g :
    ms_complete (mrun ms_init ops) = Some g ->
    exists info, ms_info (mrun ms_init ops) = Some info /\ H info = ihash /\ metadata_complete info = MOk g.
  Proof.
    intros C. destruct (mrun_inv ops ms_init init_minv) as [A _]. unfold auth_inv in A. now rewrite C in A.
  Qed.

  Theorem metadata_no_panic ops o :
    snd (fst (mstep H ihash (mrun ms_init ops) o)) <> GPanic.
  Proof. apply mstep_inv, mrun_inv, init_minv. Qed.
End Proofs.
