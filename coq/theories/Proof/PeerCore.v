(* Proof/PeerCore.v — lemmas about Model/PeerCore.v. *)
From Coq Require Import ZifyBool ZifyN ZifyNat.
From Storrent Require Import Base.Bytes Base.Bencode Gen.Consts Model.Wire Model.PeerCore.
Open Scope N_scope.

Ltac Zify.zify_post_hook ::= Z.div_mod_to_equations.

(* ---------- the request queue never "breaks" ---------- *)

Lemma remove_swap_none {A} (p : A -> bool) l : remove_swap p l = None -> forall x, In x l -> p x = false.
Proof.
  induction l as [|y r IH]; cbn [remove_swap]; intros H x Hx; [destruct Hx|].
  destruct (p y) eqn:P; [discriminate|].
  destruct (remove_swap p r) as [[z r']|]; [discriminate|].
  destruct Hx as [<-|Hx]; [assumption|]. now apply IH.
Qed.

Lemma memN_In x l : memN x l = true -> In x l.
Proof.
  induction l as [|y r IH]; cbn [memN]; [discriminate|].
  intros H. apply orb_true_iff in H as [H|H]; [left; apply N.eqb_eq in H; congruence|right; auto].
Qed.

Lemma rq_del_total r c ro : rq_del r c ro <> None.
Proof.
  unfold rq_del. destruct (rq_member r c) eqn:M; cbn [negb]; [|discriminate].
  destruct (remove_swap (fun e => fst e =? c) (rq_requested r)) as [[x rest]|] eqn:R; [discriminate|].
  destruct ro; [discriminate|].
  destruct (remove_swap (fun e => e =? c) (rq_queue r)) as [[y rest]|] eqn:Q; [discriminate|].
  exfalso. unfold rq_member in M. apply orb_true_iff in M as [M|M].
  - apply memN_In in M. apply (remove_swap_none _ _ Q) in M. rewrite N.eqb_refl in M. discriminate.
  - apply memN_In in M. apply in_map_iff in M as ((c', b) & Hc & Hin). cbn in Hc. subst c'.
    apply (remove_swap_none _ _ R) in Hin. cbn in Hin. rewrite N.eqb_refl in Hin. discriminate.
Qed.

Lemma cancel_chunk_total a c : cancel_chunk a c <> None.
Proof.
  unfold cancel_chunk. destruct (rq_cancel _ _) as [[r1 found] docan].
  destruct found; [discriminate|].
  destruct (rq_del _ _ _) as [[[r2 q] r]|] eqn:D; [|now apply rq_del_total in D].
  destruct (q || r); discriminate.
Qed.

Lemma cancel_many_total cs : forall a, cancel_many a cs <> None.
Proof.
  induction cs as [|c r IH]; intros a; cbn [cancel_many]; [discriminate|].
  destruct (cancel_chunk a c) eqn:C; [apply IH|now apply cancel_chunk_total in C].
Qed.

(* ---------- no step of the core panics ---------- *)

Ltac break_goal :=
  repeat match goal with
  | |- context [if ?c then _ else _] => destruct c eqn:?
  | |- context [match ?x with _ => _ end] => destruct x eqn:?
  end.

Lemma handle_event_no_panic a e k : snd (handle_event a e k) <> VPanic.
Proof.
  destruct e; cbn [handle_event]; unfold ok, of_werr;
    try (break_goal; cbn [snd]; discriminate).
  - (* PeerCancel *) destruct (s_geo (a_st a)); cbn [snd]; [|discriminate].
    destruct (cancel_chunk a c) eqn:C; cbn [snd]; [discriminate|now apply cancel_chunk_total in C].
  - (* PeerCancelPiece *) destruct (s_geo (a_st a)); cbn [snd]; [|discriminate].
    destruct (cancel_many _ _) eqn:C; cbn [snd]; [discriminate|now apply cancel_many_total in C].
Qed.

Lemma handle_message_no_panic a m k ad : snd (handle_message a m k ad) <> VPanic.
Proof.
  destruct m; cbn [handle_message]; unfold ok, of_werr;
    try (break_goal; cbn [snd]; discriminate).
  - (* Piece *) destruct (s_geo (a_st a)) as [g|]; [|cbn; discriminate].
    destruct (num_pieces g <=? i); [cbn; discriminate|].
    destruct (rq_del _ _ _) as [[[rq q] r]|] eqn:D; [cbn [snd]; discriminate|now apply rq_del_total in D].
  - (* RejectRequest *) destruct (negb (s_can_fast (a_st a))); [cbn; discriminate|].
    destruct (s_geo (a_st a)) as [g|]; [|cbn; discriminate].
    destruct (rq_del _ _ _) as [[[rq q] r]|] eqn:D; [cbn [snd]; discriminate|now apply rq_del_total in D].
Qed.

Lemma of_werr_no_panic x : snd (of_werr x) <> VPanic.
Proof. unfold of_werr. destruct (snd x); cbn; discriminate. Qed.

Lemma step_no_panic s ballast o k : snd (step s ballast o k) <> VPanic.
Proof.
  unfold step. destruct o; cbn [snd].
  - destruct m; cbn [snd]; apply handle_message_no_panic.
  - destruct e; cbn [snd]; apply handle_event_no_panic.
  - discriminate.
  - discriminate.
  - apply of_werr_no_panic.
  - discriminate.
Qed.

(* ---------- the upload-side projection of the state ---------- *)

Definition up_proj (s : pstate) := (s_requested s, s_am_unchoking s, s_counter s).

Ltac up_simpl :=
  unfold up_proj, upd_st, add_ev, add_alloc, set_legit, with_wq, with_reqs, with_bitmap, with_my, with_ext,
         with_lists, with_geo, with_wdead; cbn [a_st s_requested s_am_unchoking s_counter].

Lemma write_up a m : up_proj (a_st (fst (write a m))) = up_proj (a_st a).
Proof. unfold write. break_goal; cbn [fst]; up_simpl; reflexivity. Qed.

Lemma drop_up a c : up_proj (a_st (drop a c)) = up_proj (a_st a).
Proof. unfold drop. destruct (from_chunk _ _). up_simpl. reflexivity. Qed.

Lemma reject_up a i b l : up_proj (a_st (fst (reject a i b l))) = up_proj (a_st a).
Proof. unfold reject. destruct (s_can_fast _); [apply write_up|reflexivity]. Qed.

Lemma docancel_up a c : up_proj (a_st (fst (docancel a c))) = up_proj (a_st a).
Proof. unfold docancel. destruct (from_chunk _ _). apply write_up. Qed.

Lemma maybe_interested_up a : up_proj (a_st (fst (maybe_interested a))) = up_proj (a_st a).
Proof.
  unfold maybe_interested. destruct (Bool.eqb _ _); [reflexivity|].
  destruct (write a _) as [a' e] eqn:W.
  pose proof (write_up a (if s_should_interested (a_st a) &&
     match s_geo (a_st a) with Some _ => true | None => false end &&
     match s_bitmap (a_st a) with
     | Some b => existsb (fun i => negb (bm_get (s_my (a_st a)) i)) (filter (fun i => i / 8 <? blen b) (bits b))
     | None => false end then Interested else NotInterested)) as H.
  rewrite W in H. cbn [fst] in H.
  destruct e; cbn [fst]; [|exact H|exact H].
  rewrite <- H. unfold up_proj, upd_st, with_flags. cbn. reflexivity.
Qed.

Lemma mr_loop_up k : forall a, up_proj (a_st (mr_loop k a)) = up_proj (a_st a).
Proof.
  induction k as [|k IH]; intros a; cbn [mr_loop].
  - up_simpl. reflexivity.
  - destruct (rq_queue (s_reqs (a_st a))) as [|index qrest]; [up_simpl; reflexivity|].
    destruct (congested _ || _); [up_simpl; reflexivity|].
    destruct (from_chunk _ index) as [i b].
    destruct (_ || _).
    + rewrite IH, drop_up. up_simpl. reflexivity.
    + destruct (write _ _) as [a2 e] eqn:W.
      assert (H : up_proj (a_st a2) = up_proj (a_st a)).
      { pose proof (write_up (upd_st a (with_reqs (a_st a) {| rq_queue := qrest; rq_requested := rq_requested (s_reqs (a_st a)) |}))
                             (Request i b (chunk_size (the_geo (a_st a)) index))) as H.
        rewrite W in H. cbn [fst] in H. rewrite H. up_simpl. reflexivity. }
      destruct e.
      * rewrite IH. up_simpl. exact H.
      * unfold set_legit; cbn [a_st]. rewrite drop_up. exact H.
      * unfold set_legit; cbn [a_st]. rewrite drop_up. exact H.
Qed.

Lemma maybe_request_up k a : up_proj (a_st (maybe_request k a)) = up_proj (a_st a).
Proof. unfold maybe_request. destruct (_ && _); [up_simpl; reflexivity|apply mr_loop_up]. Qed.

Lemma fold_drop_up l : forall a, up_proj (a_st (fold_left drop l a)) = up_proj (a_st a).
Proof. induction l as [|c r IH]; intros a; cbn [fold_left]; [reflexivity|]. now rewrite IH, drop_up. Qed.

Lemma clear_requests_up a both : up_proj (a_st (clear_requests a both)) = up_proj (a_st a).
Proof.
  unfold clear_requests. rewrite fold_drop_up. destruct both; [rewrite fold_drop_up|]; up_simpl; reflexivity.
Qed.

Lemma retract_bitmap_up a : up_proj (a_st (retract_bitmap a)) = up_proj (a_st a).
Proof. unfold retract_bitmap. destruct (s_bitmap _); up_simpl; reflexivity. Qed.

Lemma enqueue_all_up cs : forall a, up_proj (a_st (enqueue_all a cs)) = up_proj (a_st a).
Proof.
  induction cs as [|c r IH]; intros a; cbn [enqueue_all]; [reflexivity|].
  destruct (from_chunk _ c) as [i b]. destruct (bm_get _ _).
  - destruct (rq_enqueue _ _) as [rq done]. rewrite IH. destruct done; [|rewrite drop_up]; up_simpl; reflexivity.
  - now rewrite IH, drop_up.
Qed.

Lemma cancel_chunk_up a c a' : cancel_chunk a c = Some a' -> up_proj (a_st a') = up_proj (a_st a).
Proof.
  unfold cancel_chunk. destruct (rq_cancel _ _) as [[r1 found] docan].
  destruct found.
  - intros [= <-]. destruct docan; [rewrite docancel_up|]; up_simpl; reflexivity.
  - destruct (rq_del _ _ _) as [[[r2 q] r]|]; [|discriminate].
    destruct (q || r); intros [= <-]; [|up_simpl; reflexivity].
    rewrite drop_up. destruct r; [rewrite docancel_up|]; up_simpl; reflexivity.
Qed.

Lemma cancel_many_up cs : forall a a', cancel_many a cs = Some a' -> up_proj (a_st a') = up_proj (a_st a).
Proof.
  induction cs as [|c r IH]; intros a a'; cbn [cancel_many]; [now intros [= <-]|].
  destruct (cancel_chunk a c) eqn:C; [|discriminate].
  intros H. apply IH in H. rewrite H. now apply cancel_chunk_up in C.
Qed.

Lemma expire_loop_up fuel : forall i a drops cancels d,
  up_proj (a_st (fst (expire_loop fuel i a drops cancels d))) = up_proj (a_st a).
Proof.
  induction fuel as [|f IH]; intros i a drops cancels d; cbn [expire_loop]; [reflexivity|].
  destruct (nth_error _ i) as [[c cancelled]|]; [|reflexivity].
  destruct (cancelled && memN c drops).
  - destruct (remove_swap _ _) as [[x rest]|]; [|reflexivity].
    rewrite IH, drop_up. up_simpl. reflexivity.
  - destruct (negb cancelled && memN c cancels); [|apply IH].
    rewrite IH, docancel_up. up_simpl. reflexivity.
Qed.

Lemma tick_up a drops cancels k : up_proj (a_st (tick a drops cancels k)) = up_proj (a_st a).
Proof.
  unfold tick. destruct (rq_requested _) as [|x l]; [up_simpl; reflexivity|].
  destruct (expire_loop _ _ _ _ _ _) as [a1 dropped] eqn:E.
  assert (H : up_proj (a_st a1) = up_proj (a_st a)).
  { pose proof (expire_loop_up (2 * length (x :: l) + 2) 0 a drops cancels false) as H. now rewrite E in H. }
  destruct dropped; [rewrite maybe_request_up|up_simpl]; exact H.
Qed.

Lemma send_pex_up a : up_proj (a_st (send_pex a)) = up_proj (a_st a).
Proof.
  unfold send_pex. destruct (_ || _); [reflexivity|].
  destruct (_ && _); [reflexivity|].
  destruct (write _ _) as [a' e] eqn:W.
  match type of W with write ?x ?m = _ => pose proof (write_up x m) as H; rewrite W in H; cbn [fst] in H end.
  destruct e; exact H.
Qed.

(* ---------- C16: the upload-side invariant ---------- *)

Definition inv16 (s : pstate) : Prop :=
  (s_am_unchoking s = false -> s_requested s = []) /\
  s_counter s = (if s_am_unchoking s then 1 else 0)%Z /\
  (length (s_requested s) <= 250)%nat /\
  Forall (fun r => u_length r <= max_request_length) (s_requested s).

Lemma inv16_proj s s' : up_proj s' = up_proj s -> inv16 s -> inv16 s'.
Proof. unfold up_proj, inv16. intros [= -> -> ->]. auto. Qed.

Lemma reject_all_up l : forall a, up_proj (a_st (fst (reject_all a l))) = up_proj (a_st a).
Proof.
  induction l as [|r t IH]; intros a; cbn [reject_all]; [reflexivity|].
  destruct (reject a _ _ _) as [a' e] eqn:R.
  pose proof (reject_up a (u_index r) (u_begin r) (u_length r)) as H. rewrite R in H. cbn [fst] in H.
  destruct e; [rewrite IH|cbn [fst]|cbn [fst]]; exact H.
Qed.

Lemma unchoke_inv16 a u : inv16 (a_st a) -> inv16 (a_st (fst (unchoke a u))).
Proof.
  intros (I1 & I2 & I3 & I4). unfold unchoke.
  destruct (Bool.eqb _ _) eqn:E; [cbn [fst]; repeat split; assumption|].
  destruct (u && s_interested (a_st a)) eqn:U.
  - (* unchoke *)
    assert (Ham : s_am_unchoking (a_st a) = false) by (destruct (s_am_unchoking (a_st a)); [discriminate|reflexivity]).
    destruct (write a Unchoke) as [a' e] eqn:W.
    pose proof (write_up a Unchoke) as H. rewrite W in H. cbn [fst] in H.
    unfold up_proj in H. injection H as H1 H2 H3.
    destruct e; cbn [fst].
    + unfold inv16, upd_st, with_flags. cbn. rewrite H1, H3, I2, Ham, (I1 Ham). repeat split; auto; try discriminate; try (cbn; lia).
    + unfold inv16. rewrite H1, H2, H3. repeat split; assumption.
    + unfold inv16. rewrite H1, H2, H3. repeat split; assumption.
  - (* choke *)
    assert (Ham : s_am_unchoking (a_st a) = true) by (destruct (s_am_unchoking (a_st a)); [reflexivity|discriminate]).
    destruct (write a Choke) as [a' e] eqn:W.
    pose proof (write_up a Choke) as H. rewrite W in H. cbn [fst] in H.
    unfold up_proj in H. injection H as H1 H2 H3.
    destruct e; cbn [fst].
    + eapply inv16_proj; [apply reject_all_up|].
      unfold inv16, upd_st, with_requested, with_flags. cbn. rewrite H3, I2, Ham. repeat split; auto; try discriminate; try (cbn; lia).
    + unfold inv16. rewrite H1, H2, H3. repeat split; assumption.
    + unfold inv16. rewrite H1, H2, H3. repeat split; assumption.
Qed.

Lemma remove_first_upreq_sub i b l rs rest :
  remove_first_upreq i b l rs = Some rest ->
  (length rest < length rs)%nat /\ forall P, Forall P rs -> Forall P rest.
Proof.
  revert rest; induction rs as [|r t IH]; cbn [remove_first_upreq]; intros rest; [discriminate|].
  destruct (_ && _).
  - intros [= <-]. split; [cbn; lia|]. intros P H. now inversion H.
  - destruct (remove_first_upreq i b l t) as [t'|]; [|discriminate]. intros [= <-].
    destruct (IH _ eq_refl) as [L F]. split; [cbn; lia|].
    intros P H. inversion H; subst. constructor; auto.
Qed.

Lemma schedule_upload_inv16 a allow data : inv16 (a_st a) -> inv16 (a_st (fst (schedule_upload a allow data))).
Proof.
  intros (I1 & I2 & I3 & I4). unfold schedule_upload.
  destruct (negb (s_am_unchoking (a_st a))) eqn:AM; [cbn [fst]; repeat split; assumption|].
  apply negb_false_iff in AM.
  destruct (s_requested (a_st a)) as [|r rest] eqn:RQ; [cbn [fst]; unfold inv16; rewrite RQ; repeat split; auto|].
  destruct (congested _); [cbn [fst]; unfold inv16; rewrite RQ; repeat split; auto|].
  destruct (negb allow); [cbn [fst]; unfold inv16; rewrite RQ; repeat split; auto|].
  set (a1 := add_alloc (upd_st a (with_requested (a_st a) rest)) (u_length r)).
  assert (Ha1 : up_proj (a_st a1) = (rest, s_am_unchoking (a_st a), s_counter (a_st a))) by reflexivity.
  cbn [length] in I3. inversion I4 as [|? ? Hr Hrest]; subst.
  assert (Irest : forall s, up_proj s = (rest, s_am_unchoking (a_st a), s_counter (a_st a)) -> inv16 s).
  { intros s [= E1 E2 E3]. unfold inv16. rewrite E1, E2, E3, AM, I2, AM. repeat split; auto; try discriminate; try lia. }
  destruct data as [d|].
  - destruct (write a1 _) as [a2 e] eqn:W.
    match type of W with write ?x ?m = _ => pose proof (write_up x m) as H; rewrite W in H; cbn [fst] in H end.
    destruct e; cbn [fst].
    + apply Irest. now rewrite H.
    + unfold inv16, upd_st, with_requested. cbn.
      rewrite Ha1 in H. unfold up_proj in H. injection H as H1 H2 H3. rewrite H1, H2, H3, AM, I2, AM.
      repeat split; auto; try discriminate; try (cbn [length]; lia).
    + apply Irest. now rewrite H.
  - apply Irest. now rewrite reject_up.
Qed.

Lemma with_wq_up s n : up_proj (with_wq s n) = up_proj s. Proof. reflexivity. Qed.
Lemma with_reqs_up s r : up_proj (with_reqs s r) = up_proj s. Proof. reflexivity. Qed.
Lemma with_bitmap_up s b x : up_proj (with_bitmap s b x) = up_proj s. Proof. reflexivity. Qed.
Lemma with_my_up s b : up_proj (with_my s b) = up_proj s. Proof. reflexivity. Qed.
Lemma with_ext_up s g a b c d u q : up_proj (with_ext s g a b c d u q) = up_proj s. Proof. reflexivity. Qed.
Lemma with_lists_up s f p x : up_proj (with_lists s f p x) = up_proj s. Proof. reflexivity. Qed.
Lemma with_geo_up s g : up_proj (with_geo s g) = up_proj s. Proof. reflexivity. Qed.
Lemma with_flags_up s u i si ai : up_proj (with_flags s u i (s_am_unchoking s) si ai (s_counter s)) = up_proj s.
Proof. reflexivity. Qed.

Ltac facts_up :=
  repeat match goal with
  | H : write ?x ?m = (?y, _) |- _ =>
      let F := fresh "F" in pose proof (write_up x m) as F; rewrite H in F; cbn [fst] in F; clear H
  | H : reject ?x ?i ?b ?l = (?y, _) |- _ =>
      let F := fresh "F" in pose proof (reject_up x i b l) as F; rewrite H in F; cbn [fst] in F; clear H
  end.

Ltac peel :=
  repeat first
    [ reflexivity
    | eassumption
    | etransitivity;
      [ first [ apply maybe_request_up | apply maybe_interested_up | apply drop_up | apply clear_requests_up
              | apply retract_bitmap_up | apply write_up | apply reject_up | apply docancel_up
              | apply enqueue_all_up | apply send_pex_up | apply tick_up | apply fold_drop_up
              | apply with_wq_up | apply with_reqs_up | apply with_bitmap_up | apply with_my_up
              | apply with_ext_up | apply with_lists_up | apply with_geo_up | apply with_flags_up
              | eassumption ] | ]
    | progress (unfold add_ev, add_alloc, set_legit, upd_st; cbn [a_st]) ].

(* messages that do not touch the upload side *)
Definition upload_neutral (m : msg) : bool :=
  match m with NotInterested | Request _ _ _ | Cancel _ _ _ => false | _ => true end.

Lemma handle_message_up a m k ad :
  upload_neutral m = true -> up_proj (a_st (fst (handle_message a m k ad))) = up_proj (a_st a).
Proof.
  destruct m; cbn [upload_neutral]; try discriminate; intros _;
    cbn [handle_message]; unfold ok, of_werr; break_goal; cbn [fst snd]; facts_up; peel.
Qed.

Lemma handle_message_inv16 a m k ad :
  inv16 (a_st a) -> inv16 (a_st (fst (handle_message a m k ad))).
Proof.
  intros I. destruct (upload_neutral m) eqn:N.
  { eapply inv16_proj; [apply handle_message_up; exact N|exact I]. }
  destruct m; try discriminate; cbn [handle_message]; unfold ok, of_werr.
  - (* NotInterested *)
    destruct (unchoke _ false) as [a1 e] eqn:U. cbn [fst].
    eapply inv16_proj; [unfold add_ev; cbn [a_st]; reflexivity|].
    pose proof (unchoke_inv16 (upd_st a (with_flags (a_st a) (s_unchoked (a_st a)) false (s_am_unchoking (a_st a))
                  (s_should_interested (a_st a)) (s_am_interested (a_st a)) (s_counter (a_st a)))) false) as H.
    rewrite U in H. cbn [fst] in H. apply H.
    eapply inv16_proj; [|exact I]. unfold upd_st; cbn [a_st]. apply with_flags_up.
  - (* Request *)
    destruct (_ || _) eqn:C.
    { destruct (snd _); cbn [fst]; (eapply inv16_proj; [apply reject_up|exact I]). }
    apply orb_false_iff in C as [C Hl]. apply orb_false_iff in C as [_ Ham]. apply negb_false_iff in Ham.
    destruct I as (I1 & I2 & I3 & I4).
    assert (Hl' : l <= max_request_length) by lia.
    destruct (upload_queue_max <=? llen (s_requested (a_st a))) eqn:Full.
    + destruct (s_requested (a_st a)) as [|h t] eqn:RQ.
      * exfalso. rewrite ?RQ in Full. unfold llen, upload_queue_max in Full. cbn in Full. lia.
      * destruct (reject _ _ _ _) as [a1 e] eqn:R.
        match type of R with reject ?x ?i ?b ?l = _ => pose proof (reject_up x i b l) as F; rewrite R in F; cbn [fst] in F end.
        unfold upd_st, with_requested, up_proj in F. cbn in F. injection F as F1 F2 F3.
        inversion I4 as [|? ? Hh Ht]; subst. cbn [length] in I3.
        destruct e; cbn [fst];
          unfold inv16, add_alloc, upd_st, with_requested; cbn; rewrite ?F1, ?F2, ?F3, ?I2, ?Ham;
          repeat split; auto; try discriminate; try (rewrite ?app_length; cbn; lia);
          try (apply Forall_app; split; [assumption|constructor; [cbn; lia|constructor]]).
    + cbn [fst]. unfold inv16, add_alloc, upd_st, with_requested. cbn. rewrite I2, Ham.
      unfold llen, upload_queue_max in Full.
      repeat split; auto; try discriminate; try (rewrite ?app_length; cbn; lia).
      apply Forall_app; split; [assumption|constructor; [cbn; lia|constructor]].
  - (* Cancel *)
    destruct (s_geo (a_st a)); [|cbn [fst]; exact I].
    destruct (remove_first_upreq _ _ _ _) as [rest|] eqn:R; [|cbn [fst]; exact I].
    destruct (snd _); cbn [fst];
      (eapply inv16_proj; [apply reject_up|]);
      destruct I as (I1 & I2 & I3 & I4); apply remove_first_upreq_sub in R as [RL RF];
      unfold inv16, upd_st, with_requested; cbn;
      (repeat split; auto; try lia;
       intros Ham; rewrite (I1 Ham) in RL; cbn in RL; lia).
Qed.

Lemma handle_event_inv16 a e k : inv16 (a_st a) -> inv16 (a_st (fst (handle_event a e k))).
Proof.
  intros I. destruct e; cbn [handle_event]; unfold ok, of_werr.
  10: { cbn [fst]. exact I. }
  9: { (* PeerUnchoke *)
    destruct (unchoke a u) as [a1 e] eqn:U.
    pose proof (unchoke_inv16 a u I) as H. rewrite U in H. cbn [fst] in H.
    destruct e; cbn [fst]; exact H. }
  all: try (eapply inv16_proj; [|exact I]; break_goal; cbn [fst snd]; facts_up; peel;
            first [eapply cancel_chunk_up; eassumption | eapply cancel_many_up; eassumption]).
Qed.

Lemma step_inv16 s ballast o k : inv16 s -> inv16 (a_st (fst (step s ballast o k))).
Proof.
  intros I. unfold step.
  set (s0 := if s_wdead s then s else with_wq s ballast).
  assert (I0 : inv16 (a_st (acc0 s0))).
  { cbn [acc0 a_st]. subst s0. destruct (s_wdead s); [exact I|]. eapply inv16_proj; [apply with_wq_up|exact I]. }
  destruct o.
  - destruct m; cbn [fst]; try (unfold set_legit; cbn [a_st]); now apply handle_message_inv16.
  - destruct e; cbn [fst]; try (unfold set_legit; cbn [a_st]); now apply handle_event_inv16.
  - unfold ok. cbn [fst]. eapply inv16_proj; [apply tick_up|exact I0].
  - unfold ok. cbn [fst]. unfold set_legit; cbn [a_st]. eapply inv16_proj; [apply send_pex_up|exact I0].
  - cbn [fst]. unfold set_legit; cbn [a_st]. unfold of_werr.
    destruct (snd (schedule_upload _ _ _)); cbn [fst]; now apply schedule_upload_inv16.
  - unfold ok. cbn [fst]. unfold set_legit, upd_st; cbn [a_st].
    eapply inv16_proj; [|exact I0]. reflexivity.
Qed.

Lemma init_inv16 g f e my : inv16 (init_state g f e my).
Proof. unfold inv16, init_state. cbn. repeat split; auto; try lia. Qed.

(* every state reachable by any history of steps, under any oracle values *)
Fixpoint run (s : pstate) (h : list (N * op * nat)) : pstate :=
  match h with
  | [] => s
  | (ballast, o, k) :: r => run (a_st (fst (step s ballast o k))) r
  end.

Lemma run_inv16 h : forall s, inv16 s -> inv16 (run s h).
Proof.
  induction h as [|[[b o] k] r IH]; intros s I; cbn [run]; [exact I|].
  apply IH. now apply step_inv16.
Qed.

(* a Piece is only ever written by scheduleUpload, for the head of the pending requests *)
Lemma write_msgs a m : a_msgs (fst (write a m)) = a_msgs a \/ a_msgs (fst (write a m)) = a_msgs a ++ [m].
Proof. unfold write. break_goal; cbn [fst a_msgs]; auto. Qed.

Lemma write_in a m x : In x (a_msgs (fst (write a m))) -> In x (a_msgs a) \/ x = m.
Proof.
  destruct (write_msgs a m) as [H|H]; rewrite H; [auto|].
  intros Hin. apply in_app_or in Hin as [Hin|[<-|[]]]; auto.
Qed.

Lemma schedule_upload_piece a allow data i b d :
  a_msgs a = [] ->
  In (Piece i b d) (a_msgs (fst (schedule_upload a allow data))) ->
  s_am_unchoking (a_st a) = true /\
  exists r rest, s_requested (a_st a) = r :: rest /\ u_index r = i /\ u_begin r = b /\ data = Some d.
Proof.
  intros Hnil. unfold schedule_upload.
  destruct (negb (s_am_unchoking (a_st a))) eqn:AM; [cbn [fst]; rewrite Hnil; intros []|].
  apply negb_false_iff in AM.
  destruct (s_requested (a_st a)) as [|r rest] eqn:RQ; [cbn [fst]; rewrite Hnil; intros []|].
  destruct (congested _); [cbn [fst]; rewrite Hnil; intros []|].
  destruct (negb allow); [cbn [fst]; rewrite Hnil; intros []|].
  destruct data as [d'|].
  - destruct (write _ _) as [a2 e] eqn:W.
    match type of W with write ?x ?m = _ => pose proof (write_msgs x m) as H; rewrite W in H; cbn [fst] in H end.
    unfold add_alloc, upd_st in H. cbn [a_msgs] in H. rewrite Hnil in H.
    assert (Hin : In (Piece i b d) (a_msgs a2) -> Piece i b d = Piece (u_index r) (u_begin r) d').
    { destruct H as [H|H]; rewrite H; cbn; [intros []|intros [E|[]]; now symmetry]. }
    intros Hm. assert (Hm' : In (Piece i b d) (a_msgs a2)) by (destruct e; exact Hm).
    apply Hin in Hm'. injection Hm' as -> -> ->. split; [exact AM|]. exists r, rest. auto.
  - unfold reject. destruct (s_can_fast _); cbn [fst].
    + intros Hin. apply write_in in Hin as [Hin|Hin]; [|discriminate].
      unfold add_alloc, upd_st in Hin. cbn [a_msgs] in Hin. rewrite Hnil in Hin. destruct Hin.
    + unfold add_alloc, upd_st. cbn [a_msgs]. rewrite Hnil. intros [].
Qed.

Lemma step_upload_piece s ballast allow data k i b d :
  In (Piece i b d) (a_msgs (fst (step s ballast (OpUpload allow data) k))) ->
  s_am_unchoking s = true /\
  exists r rest, s_requested s = r :: rest /\ u_index r = i /\ u_begin r = b /\ data = Some d.
Proof.
  unfold step. cbn [fst]. unfold set_legit, of_werr. cbn [a_msgs].
  set (s0 := if s_wdead s then s else with_wq s ballast).
  assert (E : s_am_unchoking s0 = s_am_unchoking s /\ s_requested s0 = s_requested s)
    by (subst s0; destruct (s_wdead s); split; reflexivity).
  destruct E as [E1 E2].
  intros H.
  assert (H' : In (Piece i b d) (a_msgs (fst (schedule_upload (acc0 s0) allow data)))).
  { destruct (snd (schedule_upload (acc0 s0) allow data)); exact H. }
  apply schedule_upload_piece in H'; [|reflexivity].
  cbn [acc0 a_st] in H'. rewrite E1, E2 in H'. exact H'.
Qed.

(* ---------- C11: what maybeRequest sends ---------- *)

(* the part of the state maybeRequest consults but never changes *)
Definition view_proj (s : pstate) := (s_geo s, s_bitmap s, s_unchoked s, s_fast s, s_reqq s).

Lemma write_view a m : view_proj (a_st (fst (write a m))) = view_proj (a_st a).
Proof. unfold write. break_goal; cbn [fst]; reflexivity. Qed.
Lemma drop_view a c : view_proj (a_st (drop a c)) = view_proj (a_st a).
Proof. unfold drop. destruct (from_chunk _ _). reflexivity. Qed.

Lemma write_reqs a m : s_reqs (a_st (fst (write a m))) = s_reqs (a_st a).
Proof. unfold write. break_goal; cbn [fst]; reflexivity. Qed.

(* a request sent for block c of the queue, as the code computes it *)
Definition sent_for (s : pstate) (c : N) (m : msg) : Prop :=
  let g := the_geo s in
  m = Request (fst (from_chunk g c)) (snd (from_chunk g c)) (chunk_size g c) /\
  bm_get (peer_bm s) (fst (from_chunk g c)) = true /\
  (s_unchoked s = true \/ is_fast s (fst (from_chunk g c)) = true).

Lemma sent_for_view s s' c m : view_proj s' = view_proj s -> sent_for s c m -> sent_for s' c m.
Proof.
  unfold view_proj, sent_for, the_geo, peer_bm, is_fast. intros [= -> -> -> -> _]. auto.
Qed.

Lemma mr_loop_msgs k : forall a m,
  In m (a_msgs (mr_loop k a)) ->
  In m (a_msgs a) \/ exists c, In c (rq_queue (s_reqs (a_st a))) /\ sent_for (a_st a) c m.
Proof.
  induction k as [|k IH]; intros a m; cbn [mr_loop].
  - unfold set_legit. cbn [a_msgs]. auto.
  - destruct (rq_queue (s_reqs (a_st a))) as [|index qrest] eqn:Q; [unfold set_legit; cbn [a_msgs]; auto|].
    destruct (congested _ || _); [unfold set_legit; cbn [a_msgs]; auto|].
    destruct (from_chunk (the_geo (a_st a)) index) as [i b] eqn:FC.
    set (a1 := upd_st a (with_reqs (a_st a) {| rq_queue := qrest; rq_requested := rq_requested (s_reqs (a_st a)) |})).
    assert (V1 : view_proj (a_st a1) = view_proj (a_st a)) by reflexivity.
    destruct ((negb (s_unchoked (a_st a)) && negb (is_fast (a_st a) i)) || negb (bm_get (peer_bm (a_st a)) i)) eqn:C.
    + intros H. apply IH in H as [H|(c & Hc & Hs)].
      * left. unfold drop in H. destruct (from_chunk _ _) in H. exact H.
      * right. exists c. split.
        -- unfold drop in Hc. destruct (from_chunk _ _) in Hc. cbn in Hc. now right.
        -- eapply sent_for_view; [|exact Hs]. symmetry. rewrite drop_view. exact V1.
    + apply orb_false_iff in C as [C1 C2]. apply negb_false_iff in C2.
      destruct (write a1 _) as [a2 e] eqn:W.
      pose proof (write_in a1 (Request i b (chunk_size (the_geo (a_st a)) index))) as WI.
      pose proof (write_view a1 (Request i b (chunk_size (the_geo (a_st a)) index))) as WV.
      rewrite W in WI, WV. cbn [fst] in WI, WV.
      assert (Sent : sent_for (a_st a) index (Request i b (chunk_size (the_geo (a_st a)) index))).
      { unfold sent_for. rewrite FC. cbn [fst snd]. repeat split; [exact C2|].
        destruct (s_unchoked (a_st a)); [now left|right].
        cbn in C1. now apply negb_false_iff in C1. }
      assert (Base : forall x, In x (a_msgs a2) ->
                In x (a_msgs a) \/ exists c, In c (index :: qrest) /\ sent_for (a_st a) c x).
      { intros x Hx. apply WI in Hx. destruct Hx as [Hx|Hx]; [left; exact Hx|].
        subst x. right. exists index. split; [now left|exact Sent]. }
      destruct e.
      * intros H. apply IH in H as [H|(c & Hc & Hs)].
        -- cbn [upd_st a_msgs] in H. now apply Base.
        -- right. exists c. split.
           ++ cbn [upd_st a_st with_reqs s_reqs rq_queue] in Hc.
              pose proof (write_reqs a1 (Request i b (chunk_size (the_geo (a_st a)) index))) as WR.
              rewrite W in WR. cbn [fst] in WR. rewrite WR in Hc. cbn in Hc. now right.
           ++ eapply sent_for_view; [|exact Hs]. cbn [upd_st a_st]. 
              symmetry. transitivity (view_proj (a_st a2)); [reflexivity|]. now rewrite WV.
      * intros H. unfold set_legit, drop in H. destruct (from_chunk _ _) in H. cbn [a_msgs add_ev] in H. now apply Base.
      * intros H. unfold set_legit, drop in H. destruct (from_chunk _ _) in H. cbn [a_msgs add_ev] in H. now apply Base.
Qed.

(* ---------- geometry of a block request ---------- *)

Definition wf_geo (g : geo) : Prop :=
  0 < psize g /\ psize g mod ChunkSize = 0 /\ 0 < total g /\ total g / ChunkSize < 4294967296.

Definition nchunks (g : geo) : N := (total g + ChunkSize - 1) / ChunkSize.

Lemma request_fields g c :
  wf_geo g -> c < nchunks g ->
  let i := fst (from_chunk g c) in let b := snd (from_chunk g c) in
  i < num_pieces g /\ b mod ChunkSize = 0 /\ b < psize g /\ i * cpp g + b / ChunkSize = c /\
  chunk_size g c = N.min ChunkSize (total g - c * ChunkSize) /\ 0 < chunk_size g c.
Proof.
  unfold wf_geo, nchunks, from_chunk, chunk_size, cpp, num_pieces, ChunkSize.
  intros (Hp & Hm & Ht & Hc) Hlt. cbn [fst snd].
  set (n := psize g / 16384).
  assert (Hps : psize g = n * 16384) by (subst n; lia).
  assert (Hn : 0 < n) by lia.
  assert (Hctot : c * 16384 < total g) by lia.
  assert (Hb : (c * 16384) mod psize g = (c mod n) * 16384).
  { rewrite Hps. apply N.mul_mod_distr_r; lia. }
  pose proof (N.div_mod c n ltac:(lia)) as Hdm.
  pose proof (N.mod_lt c n ltac:(lia)) as Hml.
  rewrite Hb.
  assert (Hq : c / n * psize g <= c * 16384).
  { rewrite Hps. rewrite N.mul_assoc. apply N.mul_le_mono_r. rewrite N.mul_comm. lia. }
  repeat split.
  - pose proof (N.div_mod (total g + psize g - 1) (psize g) ltac:(lia)) as D.
    pose proof (N.mod_lt (total g + psize g - 1) (psize g) ltac:(lia)) as M.
    set (Q := (total g + psize g - 1) / psize g) in *.
    destruct (N.lt_ge_cases (c / n) Q) as [L|G]; [exact L|]. exfalso.
    assert (Q * psize g <= c / n * psize g) by (apply N.mul_le_mono_r; exact G). lia.
  - rewrite N.mod_mul; lia.
  - rewrite Hps. apply N.mul_lt_mono_pos_r; lia.
  - rewrite N.div_mul by lia. rewrite N.mul_comm. lia.
  - rewrite N.mod_small by lia.
    destruct (c <? total g / 16384) eqn:E; lia.
  - rewrite N.mod_small by lia.
    destruct (c <? total g / 16384) eqn:E; lia.
Qed.

(* ---------- pipeline depth ---------- *)

Lemma drop_st a c : a_st (drop a c) = a_st a.
Proof. unfold drop. destruct (from_chunk _ _). reflexivity. Qed.
Lemma drop_reqs a c : s_reqs (a_st (drop a c)) = s_reqs (a_st a).
Proof. now rewrite drop_st. Qed.

Lemma mr_loop_depth k : forall a,
  nreq (a_st (mr_loop k a)) <= N.max (nreq (a_st a)) (N.max 2 (s_reqq (a_st a))).
Proof.
  induction k as [|k IH]; intros a; cbn [mr_loop].
  - unfold set_legit. cbn [a_st]. lia.
  - destruct (rq_queue (s_reqs (a_st a))) as [|index qrest] eqn:Q; [unfold set_legit; cbn [a_st]; lia|].
    destruct (congested _ || _) eqn:G; [unfold set_legit; cbn [a_st]; lia|].
    apply orb_false_iff in G as [_ G].
    destruct (from_chunk (the_geo (a_st a)) index) as [i b].
    set (a1 := upd_st a (with_reqs (a_st a) {| rq_queue := qrest; rq_requested := rq_requested (s_reqs (a_st a)) |})).
    assert (N1 : nreq (a_st a1) = nreq (a_st a)) by reflexivity.
    assert (R1 : s_reqq (a_st a1) = s_reqq (a_st a)) by reflexivity.
    destruct (_ || _).
    + specialize (IH (drop a1 index)). unfold nreq in *. rewrite drop_reqs in IH.
      rewrite drop_st in IH. exact IH.
    + destruct (write a1 _) as [a2 e] eqn:W.
      pose proof (write_reqs a1 (Request i b (chunk_size (the_geo (a_st a)) index))) as WR.
      pose proof (write_view a1 (Request i b (chunk_size (the_geo (a_st a)) index))) as WV.
      rewrite W in WR, WV. cbn [fst] in WR, WV.
      assert (Q2 : s_reqq (a_st a2) = s_reqq (a_st a)).
      { unfold view_proj in WV. injection WV as _ _ _ _ V. now rewrite V. }
      assert (N2 : nreq (a_st a2) = nreq (a_st a)) by (unfold nreq; now rewrite WR).
      destruct e.
      * match goal with |- nreq (a_st (mr_loop k ?x)) <= _ => set (X := x) end.
        pose proof (IH X) as IH'.
        assert (E : nreq (a_st X) = nreq (a_st a) + 1).
        { subst X. unfold nreq, llen in *. cbn [upd_st a_st with_reqs s_reqs rq_requested]. rewrite app_length. cbn [length]. lia. }
        assert (E2 : s_reqq (a_st X) = s_reqq (a_st a)) by (subst X; cbn; exact Q2).
        rewrite E, E2 in IH'. lia.
      * unfold set_legit. cbn [a_st]. unfold nreq in *. rewrite drop_reqs. lia.
      * unfold set_legit. cbn [a_st]. unfold nreq in *. rewrite drop_reqs. lia.
Qed.

(* a step that starts within the pipeline bound stays within it *)
Lemma maybe_request_depth k a :
  nreq (a_st a) <= N.max 2 (s_reqq (a_st a)) ->
  nreq (a_st (maybe_request k a)) <= N.max 2 (s_reqq (a_st a)).
Proof.
  intros H. unfold maybe_request. destruct (_ && _); [unfold set_legit; cbn [a_st]; exact H|].
  pose proof (mr_loop_depth k a). lia.
Qed.

(* statement of Properties/C16.v: c16_invariant *)
Lemma invariant16_all g fast ext my h :
  let s := run (init_state g fast ext my) h in
  (s_am_unchoking s = false -> s_requested s = []) /\
  s_counter s = (if s_am_unchoking s then 1 else 0)%Z /\
  (length (s_requested s) <= 250)%nat /\
  Forall (fun r => u_length r <= max_request_length) (s_requested s).
Proof. exact (run_inv16 h _ (init_inv16 g fast ext my)). Qed.
