(* Proof/Crypto.v — the stream-cipher facts the handshake and connection proofs rest on.
   They hold for any key: RC4's key stream does not depend on the data. *)
From Storrent Require Import Base.Bytes Base.Bencode Base.Crypto Model.Hs.
Open Scope N_scope.

Lemma rc4_xor_app st a b :
  rc4_xor st (a ++ b) =
  (fst (rc4_xor (fst (rc4_xor st a)) b), snd (rc4_xor st a) ++ snd (rc4_xor (fst (rc4_xor st a)) b)).
Proof.
  revert st; induction a as [|x a IH]; intros st; cbn [app rc4_xor].
  - cbn [fst snd app]. now destruct (rc4_xor st b).
  - destruct (rc4_next st) as [st1 k]. rewrite IH.
    destruct (rc4_xor st1 a) as [st2 oa]. cbn [fst snd].
    destruct (rc4_xor st2 b) as [st3 ob]. reflexivity.
Qed.

Lemma rc4_xor_length st a : length (snd (rc4_xor st a)) = length a.
Proof.
  revert st; induction a as [|x a IH]; intros st; cbn [rc4_xor]; [reflexivity|].
  destruct (rc4_next st) as [st1 k]. specialize (IH st1). destruct (rc4_xor st1 a) as [st2 oa].
  cbn [snd length] in *. now rewrite IH.
Qed.

(* the state after n bytes does not depend on the bytes *)
Lemma rc4_xor_state st a b : length a = length b -> fst (rc4_xor st a) = fst (rc4_xor st b).
Proof.
  revert st b; induction a as [|x a IH]; intros st [|y b] H; try discriminate; [reflexivity|].
  cbn [rc4_xor]. destruct (rc4_next st) as [st1 k]. specialize (IH st1 b ltac:(now injection H)).
  destruct (rc4_xor st1 a), (rc4_xor st1 b). exact IH.
Qed.

(* decrypting with the same key stream gives the plaintext back *)
Lemma rc4_xor_invol st a : snd (rc4_xor st (snd (rc4_xor st a))) = a.
Proof.
  revert st; induction a as [|x a IH]; intros st; cbn [rc4_xor]; [reflexivity|].
  destruct (rc4_next st) as [st1 k] eqn:E. specialize (IH st1).
  destruct (rc4_xor st1 a) as [st2 oa] eqn:E2. cbn [snd] in *. cbn [rc4_xor]. rewrite E.
  destruct (rc4_xor st1 oa) as [st3 ob]. cbn [snd] in *. subst ob.
  f_equal. rewrite N.lxor_assoc, N.lxor_nilpotent. apply N.lxor_0_r.
Qed.

(* the optional-cipher wrappers *)
Lemma dxor_app d a b : dxor d (a ++ b) = dxor d a ++ dxor (dstate d a) b.
Proof. destruct d as [st|]; cbn [dxor dstate]; [|reflexivity]. now rewrite rc4_xor_app. Qed.

Lemma dstate_app d a b : dstate d (a ++ b) = dstate (dstate d a) b.
Proof. destruct d as [st|]; cbn [dstate]; [|reflexivity]. now rewrite rc4_xor_app. Qed.

Lemma dxor_len d a : len (dxor d a) = len a.
Proof. destruct d as [st|]; cbn [dxor]; [|reflexivity]. unfold len. now rewrite rc4_xor_length. Qed.

Lemma dxor_nil d : dxor d [] = [].
Proof. now destruct d. Qed.
Lemma dstate_nil d : dstate d [] = d.
Proof. now destruct d. Qed.
