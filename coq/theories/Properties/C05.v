(* Properties/C05.v — No message sequence from a remote peer can crash or bloat the client. *)
From Storrent Require Import Base.Bytes Base.Bencode Model.Wire Model.PeerCore Proof.PeerCore Proof.Alloc.
Open Scope N_scope.

(* Handling any message, torrent command or tick, in ANY peer state (reachable or not,
   any capability set, metadata known or not), under any oracle values, ends with
   "continue" or "disconnect this peer": the panic sites of the request queue
   ("Requests is broken!") are unreachable.  Termination is by construction: every
   handler of the model is a structurally recursive Gallina function. *)
Theorem c05_total : forall s ballast o k, snd (step s ballast o k) <> VPanic.
Proof. exact step_no_panic. Qed.
Print Assumptions c05_total.

(* What handling one message may allocate, by the model's cost function (a_alloc counts every
   slice the handlers allocate or grow: bitmaps, copies of payloads, PEX and allowed-fast lists):
   from ANY state, at most twice the size of the message, twice the peer's current bitmap and
   twice the size a bitmap of this torrent can have (838,861 bytes' worth of bits before the
   metadata is known, the cap the handlers impose), plus a constant.  The monitor of
   Check/PeerCheck.v ties the cost function to the Go runtime's TotalAlloc on every run. *)
Theorem c05_alloc_proportional : forall s ballast m ad k,
  a_alloc (fst (step s ballast (OpMsg m ad) k)) <= 2 * msg_size m + 2 * blen (peer_bm s) + 2 * bm_cap s + 64.
Proof. exact message_alloc_bounded. Qed.
Print Assumptions c05_alloc_proportional.
