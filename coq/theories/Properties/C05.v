(* Properties/C05.v — No message sequence from a remote peer can crash or bloat the client. *)
From Storrent Require Import Base.Bytes Base.Bencode Model.Wire Model.PeerCore Proof.PeerCore.
Open Scope N_scope.

(* Handling any message, torrent command or tick, in ANY peer state (reachable or not,
   any capability set, metadata known or not), under any oracle values, ends with
   "continue" or "disconnect this peer": the panic sites of the request queue
   ("Requests is broken!") are unreachable.  Termination is by construction: every
   handler of the model is a structurally recursive Gallina function. *)
Theorem c05_total : forall s ballast o k, snd (step s ballast o k) <> VPanic.
Proof. exact step_no_panic. Qed.
Print Assumptions c05_total.

(* PARTIAL: allocation proportional to the message (c05_alloc_proportional) is checked
   on the implementation by the monitor of Check/PeerCheck.v (TotalAlloc per handled
   message against 24*size + 64 KiB, 838,861 bytes for a Have before metadata); the
   corresponding theorem about the model's cost function is not proved yet. *)
