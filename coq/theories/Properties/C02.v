(* Properties/C02.v — A Reader is an exact, live view of its byte range. *)
From Storrent Require Import Base.Bytes Model.Reader Proof.Reader.
Open Scope Z_scope.

(* Every Read (Model/Reader.v: Reader.Read through Pieces.ReadAt over available pieces), for every
   geometry, range, position and buffer size: the bytes returned are bytes [abs, abs+cnt) of the
   torrent with abs = offset + position, they lie inside the reader's range and inside one piece,
   cnt is at most the buffer, the position advances by cnt, at least one byte is returned when the
   buffer is not empty and the range not exhausted, and end of file is reported exactly when the
   position reaches the length of the range (or the torrent's end, for a range that overruns it). *)
Theorem c02_read_exact : forall psize total r n r' abs cnt err,
  rd_wf psize total r -> 0 <= n -> rd_closed r = false ->
  rd_read psize total r n = (r', abs, cnt, err) ->
  rd_wf psize total r' /\ rd_offset r' = rd_offset r /\ rd_length r' = rd_length r /\ rd_closed r' = false /\
  rd_pos r' = rd_pos r + cnt /\
  0 <= cnt <= n /\
  (0 < cnt -> abs = rd_offset r + rd_pos r /\ rd_pos r + cnt <= rd_length r /\ abs + cnt <= total /\
              abs / psize = (abs + cnt - 1) / psize) /\
  (0 < n -> rd_pos r < rd_length r -> rd_offset r + rd_pos r < total -> 0 < cnt) /\
  (err = REOF <-> rd_pos r' >= rd_length r \/ total <= rd_offset r + rd_pos r) /\
  err <> RClosed.
Proof. exact read_spec. Qed.
Print Assumptions c02_read_exact.

(* Seek moves the position as a file's would and refuses a negative one. *)
Theorem c02_seek : forall psize total r o w r' res,
  rd_wf psize total r -> rd_seek r o w = (r', res) ->
  rd_wf psize total r' /\ rd_offset r' = rd_offset r /\ rd_length r' = rd_length r /\
  match res with
  | Some p => rd_closed r = false /\ rd_pos r' = p /\ 0 <= p /\
              p = match w with SeekStart => o | SeekCurrent => rd_pos r + o | SeekEnd => rd_length r + o end
  | None => r' = r
  end.
Proof. exact seek_spec. Qed.
Print Assumptions c02_seek.

(* Any sequence of reads with buffers of any sizes returns consecutive ranges starting at the
   reader's position: concatenated they are the file's content from there on. *)
Theorem c02_reads_are_consecutive : forall psize total bufs r,
  rd_wf psize total r -> rd_closed r = false -> Forall (fun n => 0 <= n) bufs ->
  chained (rd_offset r + rd_pos r) (fst (read_all psize total r bufs)) /\
  rd_pos (snd (read_all psize total r bufs)) =
    rd_pos r + fold_right (fun x acc => snd x + acc) 0 (fst (read_all psize total r bufs)).
Proof. exact read_all_chained. Qed.
Print Assumptions c02_reads_are_consecutive.
