(* Properties/C02.v — A Reader is an exact, live view of its byte range. *)
From Storrent Require Import Base.Bytes Model.Reader Proof.Reader.
Open Scope Z_scope.

(* Every Read (Model/Reader.v: Reader.Read through Pieces.ReadAt over available pieces), for every
   geometry, range, position and buffer size: the bytes returned are bytes [abs, abs+cnt) of the
   torrent with abs = offset + position, they lie inside the reader's range and inside one piece,
   cnt is at most the buffer, the position advances by cnt, at least one byte is returned when the
   buffer is not empty and the range not exhausted, and end of file is reported exactly when the
   position reaches the length of the range (or the torrent's end, for a range that overruns it). *)
Theorem c02_read_exact : forall psize total r n r' abs cnt err,
  rd_wf psize total r -> 0 <= n -> rd_closed r = false ->
  rd_read psize total r n = (r', abs, cnt, err) ->
  rd_wf psize total r' /\ rd_offset r' = rd_offset r /\ rd_length r' = rd_length r /\ rd_closed r' = false /\
  rd_pos r' = rd_pos r + cnt /\
  0 <= cnt <= n /\
  (0 < cnt -> abs = rd_offset r + rd_pos r /\ rd_pos r + cnt <= rd_length r /\ abs + cnt <= total /\
              abs / psize = (abs + cnt - 1) / psize) /\
  (0 < n -> rd_pos r < rd_length r -> rd_offset r + rd_pos r < total -> 0 < cnt) /\
  (err = REOF <-> rd_pos r' >= rd_length r \/ total <= rd_offset r + rd_pos r) /\
  err <> RClosed.
Proof. exact read_spec. Qed.
Print Assumptions c02_read_exact.

(* Seek moves the position as a file's would and refuses a negative one. *)
Theorem c02_seek : forall psize total r o w r' res,
  rd_wf psize total r -> rd_seek r o w = (r', res) ->
  rd_wf psize total r' /\ rd_offset r' = rd_offset r /\ rd_length r' = rd_length r /\
  match res with
  | Some p => rd_closed r = false /\ rd_pos r' = p /\ 0 <= p /\
              p = match w with SeekStart => o | SeekCurrent => rd_pos r + o | SeekEnd => rd_length r + o end
  | None => r' = r
  end.
Proof. exact seek_spec. Qed.
Print Assumptions c02_seek.

(* Any sequence of reads with buffers of any sizes returns consecutive ranges starting at the
   reader's position: concatenated they are the file's content from there on. *)
Theorem c02_reads_are_consecutive : forall psize total bufs r,
  rd_wf psize total r -> rd_closed r = false -> Forall (fun n => 0 <= n) bufs ->
  chained (rd_offset r + rd_pos r) (fst (read_all psize total r bufs)) /\
  rd_pos (snd (read_all psize total r bufs)) =
    rd_pos r + fold_right (fun x acc => snd x + acc) 0 (fst (read_all psize total r bufs)).
Proof. exact read_all_chained. Qed.
Print Assumptions c02_reads_are_consecutive.

(* Reading n bytes from wherever the reader stands, in buffers of at most cap bytes - what io.CopyN under
   http.ServeContent (cap = 32 KiB) and io.ReadFull under the FUSE handle (cap = n) do -, for every
   geometry, range, position, n and cap: the ranges returned are consecutive from offset + position, add
   up to min(n, bytes of the range left, the range being cut at the torrent's end), and the position has
   advanced by exactly that ([left] and [rsum] are defined in Proof/Reader.v: bytes left, sum of counts). *)
Theorem c02_read_n_bytes : forall cap psize total fuel r n,
  0 < cap -> rd_wf psize total r -> rd_closed r = false -> 0 <= n -> (Z.to_nat n <= fuel)%nat ->
  chained (rd_offset r + rd_pos r) (fst (read_n fuel cap psize total r n)) /\
  rsum (fst (read_n fuel cap psize total r n)) = Z.min n (left total r) /\
  rd_pos (snd (read_n fuel cap psize total r n)) = rd_pos r + Z.min n (left total r) /\
  rd_offset (snd (read_n fuel cap psize total r n)) = rd_offset r /\
  rd_length (snd (read_n fuel cap psize total r n)) = rd_length r.
Proof. exact read_n_explicit. Qed.
Print Assumptions c02_read_n_bytes.

(* HTTP Range requests (net/http's ServeContent is specified by [http_range], compared with the real
   handler's status, Content-Range and body on every run): for every file lying inside the torrent and
   every Range header of the three forms that is not refused with 416, the reader opened on the file,
   sought to the first byte of the range and read for the range's length returns consecutive ranges of the
   torrent that start at the file's offset + first byte, add up to exactly the length announced, and lie
   inside the file: the body is bytes [first, first+length) of that file and nothing else. *)
Theorem c02_http_range : forall psize total off flen s st a cnt fuel,
  0 < psize -> 0 < total -> 0 <= off -> 0 <= flen -> off + flen <= total ->
  rspec_ok s = true -> http_range flen s = (st, a, cnt) -> st <> 416 -> (Z.to_nat cnt <= fuel)%nat ->
  let r := fst (rd_seek (rd_new off flen) a SeekStart) in
  let l := fst (read_n fuel 32768 psize total r cnt) in
  chained (off + a) l /\ rsum l = cnt /\ off <= off + a /\ off + a + cnt <= off + flen.
Proof. exact http_range_served. Qed.
Print Assumptions c02_http_range.

(* FUSE reads: whatever other reads have moved the handle's reader to (each read seeks first, under the
   handle's semaphore), a read of n bytes at offset o of a file returns consecutive ranges from the file's
   offset + o adding up to min(n, bytes of the file after o) - short only at the end of the file. *)
Theorem c02_fuse_read : forall psize total off flen o n fuel,
  0 < psize -> 0 < total -> 0 <= off -> 0 <= flen -> off + flen <= total ->
  0 <= o -> 0 < n -> (Z.to_nat n <= fuel)%nat ->
  let r := fst (rd_seek (rd_new off flen) o SeekStart) in
  let l := fst (read_n fuel n psize total r n) in
  chained (off + o) l /\ rsum l = fuse_read flen o n /\ (0 < rsum l -> off + o + rsum l <= off + flen).
Proof. exact fuse_read_served. Qed.
Print Assumptions c02_fuse_read.

(* Concurrent FUSE reads on one handle are served one at a time (the handle's semaphore), in an order the
   callers do not control.  For every sequence of reads (offset, size) in any order, each read returns
   consecutive ranges from the file's offset + its own offset adding up to min(size, bytes of the file
   after that offset) - its own bytes, whatever the reads before it did to the shared reader. *)
Theorem c02_fuse_reads_any_order : forall psize total ops r,
  rd_wf psize total r -> rd_closed r = false -> rd_offset r + rd_length r <= total ->
  Forall (fun op => 0 <= fst op /\ 0 < snd op) ops ->
  Forall2 (fun op l => chained (rd_offset r + fst op) l /\ rsum l = fuse_read (rd_length r) (fst op) (snd op))
          ops (fuse_ops psize total r ops).
Proof. exact fuse_ops_spec. Qed.
Print Assumptions c02_fuse_reads_any_order.

(* ... and the same from whatever state ServeContent's own probing has left the reader in (it seeks to
   the end for the size, may read the first 512 bytes to guess the content type, and seeks back). *)
Theorem c02_http_range_any_state : forall psize total r s st a cnt fuel,
  rd_wf psize total r -> rd_closed r = false -> rd_offset r + rd_length r <= total ->
  rspec_ok s = true -> http_range (rd_length r) s = (st, a, cnt) -> st <> 416 -> (Z.to_nat cnt <= fuel)%nat ->
  let l := fst (read_n fuel 32768 psize total (fst (rd_seek r a SeekStart)) cnt) in
  chained (rd_offset r + a) l /\ rsum l = cnt /\ 0 <= a /\ a + cnt <= rd_length r.
Proof. exact http_range_any. Qed.
Print Assumptions c02_http_range_any_state.
