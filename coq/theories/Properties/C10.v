(* Properties/C10.v — Piece requests: no lost wake-ups, no leaked priorities. *)
From Coq Require Import Permutation.
From Storrent Require Import Base.Bytes Model.Requested Proof.Requested.
Open Scope N_scope.

(* For every sequence of Add / Del / Done / DelIdle / DelIdlePiece (any pieces, priorities, any
   order): no completion channel is ever closed twice (close of a closed channel is a panic), the
   closed channels are distinct, every channel attached to an entry is still open and belongs to
   that entry only. *)
Theorem c10_channels_closed_once : forall keys ops, J (fold_left (r_step keys) ops r_init).
Proof. exact run_J. Qed.
Print Assumptions c10_channels_closed_once.

(* Done wakes whoever is waiting for the piece ... *)
Theorem c10_done_wakes : forall s i r ch,
  r_pieces s i = Some r -> rp_done r = Some ch -> In ch (r_closed (r_done s i)).
Proof. exact done_closes. Qed.
Print Assumptions c10_done_wakes.

(* ... and leaves no stale channel behind: a consumer that arrives later gets a new one. *)
Theorem c10_done_clears : forall s i,
  match r_pieces (r_done s i) i with Some r => rp_done r = None | None => True end.
Proof. exact done_clears. Qed.
Print Assumptions c10_done_clears.

(* Add records the consumer's priority on that piece only. *)
Theorem c10_add_prios : forall s i p w j,
  prios (fst (fst (r_add s i p w))) j =
  if j =? i then (if (IdlePriority <? p)%Z then prios s i ++ [p] else prios s i) else prios s j.
Proof. exact add_prios. Qed.
Print Assumptions c10_add_prios.

(* Del withdraws exactly one occurrence of the priority, from that piece only, and a priority
   nobody holds withdraws nothing. *)
Theorem c10_del_prios : forall s i p j,
  (j <> i -> prios (fst (r_del s i p)) j = prios s j) /\
  (In p (prios s i) -> Permutation (prios s i) (p :: prios (fst (r_del s i p)) i)) /\
  (~ In p (prios s i) -> prios (fst (r_del s i p)) i = prios s i).
Proof. exact del_prios. Qed.
Print Assumptions c10_del_prios.

(* Completion, and the pruning of idle entries, never take a consumer's priority away; a piece
   somebody wants stays requested. *)
Theorem c10_done_keeps_prios : forall s i j, prios (r_done s i) j = prios s j.
Proof. exact done_prios. Qed.
Print Assumptions c10_done_keeps_prios.

Theorem c10_delidle_keeps_prios : forall keys s j, prios (r_del_idle s keys) j = prios s j.
Proof. exact del_idle_prios. Qed.
Print Assumptions c10_delidle_keeps_prios.

Theorem c10_wanted_stays : forall s i, prios s i <> [] -> r_pieces s i <> None.
Proof. exact wanted_stays. Qed.
Print Assumptions c10_wanted_stays.
