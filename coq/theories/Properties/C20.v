(* Properties/C20.v — Front-ends expose exactly the torrent's files. *)
From Storrent Require Import Base.Bytes Base.Bencode Model.Wire Model.Torfile Model.Namespace Proof.Namespace Proof.FuseWalk.
Open Scope N_scope.

(* the HTTP file view resolves a path to the offset and length of a file of the table
   with exactly that path, and to nothing when no file has that path *)
Theorem c20_http_resolves : forall files name total p o l,
  files <> [] ->
  file_parms files name total p = Some (o, l) ->
  exists f, In f files /\ f_path f = p /\ f_off f = o /\ f_len f = l.
Proof. exact file_parms_multi. Qed.
Print Assumptions c20_http_resolves.

Theorem c20_http_resolves_nothing_else : forall files name total p,
  files <> [] ->
  file_parms files name total p = None -> forall f, In f files -> f_path f <> p.
Proof. exact file_parms_multi_none. Qed.
Print Assumptions c20_http_resolves_nothing_else.

Theorem c20_http_single_file : forall name total p,
  file_parms [] name total p = (if path_eqb p [name] then Some (0%Z, total) else None).
Proof. exact file_parms_single. Qed.
Print Assumptions c20_http_single_file.

(* directory pages and playlists enumerate exactly the files within the directory,
   each as many times as it occurs in the table *)
Theorem c20_listing_exact : forall files dir f,
  In f (listing files dir) <-> In f files /\ within (f_path f) dir = true.
Proof. exact listing_in. Qed.
Print Assumptions c20_listing_exact.

Theorem c20_listing_count : forall files dir,
  length (listing files dir) = length (filter (fun f => within (f_path f) dir) files).
Proof. exact listing_length. Qed.
Print Assumptions c20_listing_count.

(* FUSE.  Walking a path of valid names (non-empty, no '/', not "." or "..": what the kernel
   passes) component by component through directory.Lookup from the torrent's directory node,
   for every sane table (valid components, no path equal to or a proper prefix of another — what
   MetadataComplete's layout produces for real torrents): the walk ends in a file node named
   by the path exactly when the table has a file with that path, in a directory node exactly
   when the path is a proper prefix of some file's path, and fails (ENOENT) otherwise. *)
Theorem c20_fuse_walk : forall files p,
  sane files = true -> forallb valid_component p = true -> p <> [] ->
  walk files (FDir []) p = expect files p.
Proof. exact fuse_walk. Qed.
Print Assumptions c20_fuse_walk.

(* ... the file node's size is that file's length ... *)
Theorem c20_fuse_attr : forall files total p f0, Forall okc p ->
  file_attr (f0 :: files) total (join p) =
  match find (fun f => path_eqb p (f_path f)) (f0 :: files) with Some f => Some (f_len f) | None => None end.
Proof. exact fuse_attr. Qed.
Print Assumptions c20_fuse_attr.

(* ... and ReadDirAll of the directory d lists a file entry for exactly the non-padding files
   directly in d, a directory entry for exactly the next components of the non-padding files
   deeper down, and no directory twice (for ANY table). *)
Theorem c20_fuse_readdir : forall files d name isdir, Forall okc d ->
  (In (name, isdir) (dir_readdir files (join d)) <->
   exists f, In f files /\ f_pad f = false /\
             if isdir then exists x rest, f_path f = d ++ name :: x :: rest else f_path f = d ++ [name]) /\
  NoDup (map fst (filter snd (dir_readdir files (join d)))).
Proof. exact fuse_readdir. Qed.
Print Assumptions c20_fuse_readdir.
