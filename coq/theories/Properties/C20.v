(* Properties/C20.v — Front-ends expose exactly the torrent's files. *)
From Storrent Require Import Base.Bytes Base.Bencode Model.Wire Model.Torfile Model.Namespace Proof.Namespace.
Open Scope N_scope.

(* the HTTP file view resolves a path to the offset and length of a file of the table
   with exactly that path, and to nothing when no file has that path *)
Theorem c20_http_resolves : forall files name total p o l,
  files <> [] ->
  file_parms files name total p = Some (o, l) ->
  exists f, In f files /\ f_path f = p /\ f_off f = o /\ f_len f = l.
Proof. exact file_parms_multi. Qed.
Print Assumptions c20_http_resolves.

Theorem c20_http_resolves_nothing_else : forall files name total p,
  files <> [] ->
  file_parms files name total p = None -> forall f, In f files -> f_path f <> p.
Proof. exact file_parms_multi_none. Qed.
Print Assumptions c20_http_resolves_nothing_else.

Theorem c20_http_single_file : forall name total p,
  file_parms [] name total p = (if path_eqb p [name] then Some (0%Z, total) else None).
Proof. exact file_parms_single. Qed.
Print Assumptions c20_http_single_file.

(* directory pages and playlists enumerate exactly the files within the directory,
   each as many times as it occurs in the table *)
Theorem c20_listing_exact : forall files dir f,
  In f (listing files dir) <-> In f files /\ within (f_path f) dir = true.
Proof. exact listing_in. Qed.
Print Assumptions c20_listing_exact.

Theorem c20_listing_count : forall files dir,
  length (listing files dir) = length (filter (fun f => within (f_path f) dir) files).
Proof. exact listing_length. Qed.
Print Assumptions c20_listing_count.

(* PARTIAL: the FUSE clauses (walking a path component by component resolves exactly
   as spec_resolve says, ReadDirAll names exactly the next components of the non-padding
   files) are judged on every run by the monitor of Check/NamespaceCheck.v against the
   specification; they are not yet theorems about dir_lookup / dir_readdir. *)
