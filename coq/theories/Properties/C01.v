(* Properties/C01.v — Only hash-verified data is ever readable. *)
From Storrent Require Import Base.Bytes Model.PieceStore Proof.PieceStore.
Open Scope N_scope.

(* The piece store (tor/piece/piece.go) as a transition system whose actions are its critical
   sections; Finalise is two actions with the piece busy in between.  Every interleaving of
   any number of goroutines adding blocks (good, corrupt, duplicate, out of order), finalising,
   reading, evicting and deleting is a sequence of actions.  In every reachable state: a piece
   marked complete holds a buffer whose every block is present and whose digest equals the
   metainfo's; a piece being hashed holds all its blocks. *)
Theorem c01_invariant : forall H expected nblocks plen n l,
  Inv H expected plen (run H expected nblocks plen (init n) l).
Proof. exact run_inv. Qed.
Print Assumptions c01_invariant.

(* Hence ReadAt changes nothing and returns a block's content only from a piece that is complete:
   all blocks stored, digest equal to the expected one, at the block's own place.  Incomplete,
   busy, failed, evicted and deleted pieces give no data. *)
Theorem c01_read_verified : forall H expected nblocks plen s i b d,
  Inv H expected plen s ->
  fst (step H expected nblocks plen s (ARead i b)) = s /\
  (snd (step H expected nblocks plen s (ARead i b)) = RData (Some d) ->
   exists l, pc_buf (get s i) = Some l /\ pc_state (get s i) = Complete /\
             H l = expected i /\ all_set l = true /\ nth b l None = Some d).
Proof. exact read_verified. Qed.
Print Assumptions c01_read_verified.

(* While a piece is being hashed nobody can change or free its buffer. *)
Theorem c01_busy_is_kept : forall H expected nblocks plen s i a,
  pc_state (get s i) = Busy -> (i < length (st_pieces s))%nat ->
  a = ADel i \/ a = ADelForce i \/ (exists b d, a = AAdd i b d) \/ a = AFinBegin i ->
  fst (step H expected nblocks plen s a) = s.
Proof. exact busy_is_kept. Qed.
Print Assumptions c01_busy_is_kept.
