(* Properties/C11.v — Everything storrent sends to a peer is protocol-conformant. *)
From Storrent Require Import Base.Bytes Base.Bencode Gen.Consts Model.Wire Model.PeerCore Proof.PeerCore Proof.Pex Proof.NoDupReqs Proof.Sent Proof.Avail Proof.BmCodec Proof.Advertise.
Open Scope N_scope.

(* Every message that maybeRequest's loop adds to the wire, for ANY number of loop
   iterations (i.e. any decision of the rate-based pipelining test), is a Request
   computed from a block c that was queued by the scheduler, for a piece the peer has
   advertised, sent while the peer has unchoked us or allowed-fast that piece. *)
Theorem c11_requests_send_time : forall k a m,
  In m (a_msgs (mr_loop k a)) ->
  In m (a_msgs a) \/ exists c, In c (rq_queue (s_reqs (a_st a))) /\ sent_for (a_st a) c m.
Proof. exact mr_loop_msgs. Qed.
Print Assumptions c11_requests_send_time.

(* ... and for a block c of the torrent (c below the number of 16 KiB blocks) of a
   well-formed geometry, the index is an existing piece, the offset is 16 KiB-aligned and
   inside the piece, index and offset name block c, and the length is exactly
   min(16 KiB, bytes left), hence positive and shorter only for the final block. *)
Theorem c11_request_fields : forall g c,
  wf_geo g -> c < nchunks g ->
  let i := fst (from_chunk g c) in let b := snd (from_chunk g c) in
  i < num_pieces g /\ b mod ChunkSize = 0 /\ b < psize g /\ i * cpp g + b / ChunkSize = c /\
  chunk_size g c = N.min ChunkSize (total g - c * ChunkSize) /\ 0 < chunk_size g c.
Proof. exact request_fields. Qed.
Print Assumptions c11_request_fields.

(* the number of outstanding requests never grows beyond max(2, advertised queue depth) *)
Theorem c11_pipeline_depth : forall k a,
  nreq (a_st a) <= N.max 2 (s_reqq (a_st a)) ->
  nreq (a_st (maybe_request k a)) <= N.max 2 (s_reqq (a_st a)).
Proof. exact maybe_request_depth. Qed.
Print Assumptions c11_pipeline_depth.

(* Peer exchange, for every history of additions, departures and ticks (successful or
   not) since the connection was set up; g_wire is the set of addresses the remote
   currently believes present: *)
(* (a) an address is never announced twice *)
Theorem c11_pex_never_announced_twice : forall ops p,
  In p (fst (delta (g_st (prun ops)))) -> ~ In (addr p) (g_wire (prun ops)).
Proof. exact pex_never_announced_twice. Qed.
Print Assumptions c11_pex_never_announced_twice.

(* (b) an address that was not announced is never dropped *)
Theorem c11_pex_drop_only_announced : forall ops p,
  In p (snd (delta (g_st (prun ops)))) -> In (addr p) (g_wire (prun ops)).
Proof. exact pex_drop_only_announced. Qed.
Print Assumptions c11_pex_drop_only_announced.

(* (c) every departure of an announced address is queued for reporting, and the queue
   of pending drops is emptied by ceil(n/50) successful ticks *)
Theorem c11_pex_departure_queued : forall ops p,
  In (addr p) (g_wire (prun ops)) ->
  In (addr p) (map addr (px_pending_del (g_st (pstep (prun ops) (PDel p))))).
Proof. exact pex_departure_queued. Qed.
Print Assumptions c11_pex_departure_queued.

Theorem c11_pex_departures_drain : forall n g,
  (length (px_pending_del (g_st g)) <= 50 * n)%nat -> px_pending_del (g_st (ticks n g)) = [].
Proof. exact ticks_drain. Qed.
Print Assumptions c11_pex_departures_drain.

(* the message sendPex writes is exactly that delta and its bookkeeping is that of a
   successful tick (ties the PEX transition system above to the peer model) *)
Theorem c11_pex_refines : forall a sub added dropped,
  a_msgs a = [] ->
  In (ExtendedPex sub added dropped) (a_msgs (send_pex a)) ->
  (added, dropped) = delta (s_pexst (a_st a)) /\
  s_pexst (a_st (send_pex a)) = g_st (pstep {| g_st := s_pexst (a_st a); g_wire := [] |} (PTick true)).
Proof. exact send_pex_is_tick. Qed.
Print Assumptions c11_pex_refines.

(* A block is never queued or outstanding twice at a peer: every step of the peer core (any
   message, command, tick, oracle values) keeps the queued and the requested blocks free of
   duplicates.  A Request is written exactly when a block moves from the queue to the requested
   list (c11_requests_send_time), so no request is duplicated while it is outstanding. *)
Theorem c11_no_duplicate_requests : forall s ballast o k,
  NoDup (rq_queue (s_reqs s) ++ map fst (rq_requested (s_reqs s))) ->
  let s' := a_st (fst (step s ballast o k)) in
  NoDup (rq_queue (s_reqs s') ++ map fst (rq_requested (s_reqs s'))).
Proof. exact step_nodup. Qed.
Print Assumptions c11_no_duplicate_requests.

(* Cancels refer to outstanding requests.  For every step of the peer core from ANY state (any
   scheduler command — cancel of a block, of a whole piece —, any expiry tick with any set of
   timed-out requests, any message, congestion or oracle value), the Cancel messages written are
   exactly the Cancels (index, offset and length computed from the block number as for the
   Request) of a list of DISTINCT blocks, each of which was requested from this peer and not yet
   cancelled when the step began: never a Cancel for a block that is only queued, already
   cancelled, already answered or unknown, and never two for one request. *)
Theorem c11_cancels_outstanding : forall s ballast o k,
  exists sent, filter is_cancel (a_msgs (fst (step s ballast o k))) = map (cancel_of (the_geo s)) sent /\
               NoDup sent /\ incl sent (uncancelled s).
Proof. exact step_cancels. Qed.
Print Assumptions c11_cancels_outstanding.

(* The wire form of a bitmap is exact: decoding the bytes written for a well-formed bitmap (bits
   sorted, inside the allocated bytes) gives back that bitmap — the pieces held and no spare bit. *)
Theorem c11_bitmap_codec : forall b, wf_bm b -> bm_of_bytes (bm_to_bytes b) = b.
Proof. exact bm_codec. Qed.
Print Assumptions c11_bitmap_codec.

(* The initial advertisement of peer.Run (Model: initial_adv, compared on every run with what a remote
   end of a real peer.Run receives), for every torrent of n >= 1 pieces, every set of pieces held
   (all below n, the bitmap no longer than ceil(n/8) bytes), to a peer with or without the fast
   extension: every message is well-formed for n pieces (adv_set does not fail: a Bitfield has
   exactly ceil(n/8) bytes and no spare bit set — in particular when n is a multiple of 8 —,
   every Have is below n), what the remote understands after the last one is exactly the set
   of pieces held, and HaveAll / HaveNone go only to peers that support the fast extension. *)
Theorem c11_initial_advertisement : forall g can_fast my,
  let n := num_pieces g in
  wf_bm my -> (forall i, In i (bits my) -> i < n) -> blen my <= (n + 7) / 8 -> 0 < n ->
  adv_set n (initial_adv (Some g) can_fast my) [] = Some (bits my) /\
  Forall (fun m => match m with HaveAll | HaveNone => can_fast = true | _ => True end) (initial_adv (Some g) can_fast my).
Proof. exact adv_conformant. Qed.
Print Assumptions c11_initial_advertisement.
