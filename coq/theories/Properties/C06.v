(* Properties/C06.v — Emitted messages round-trip and match an independent codec. *)
From Storrent Require Import Base.Bytes Base.Bencode Model.Wire Model.WireSpec Proof.WireSpec Proof.BencodeRT Proof.WireExt.
Open Scope N_scope.

(* Every message of the protocol with every field in range ([emit_ok]: the core messages of
   BEP 3/5/6, bitfield, piece, lt_donthave and upload_only; the extended handshake with any subset
   of its optional keys, an "m" dictionary with sorted distinct keys, addresses of 4 / 16 bytes;
   ut_metadata requests, data and rejects; ut_pex with any mix of IPv4 and IPv6 peers added and
   dropped; unknown message and extension ids), written by the independent encoder — the
   bencoded ones through the canonical bencoder — is read back by the model of protocol.Read
   (and of zeebo/bencode) as the same message up to [norm] (peer lists come back IPv4 first, the
   flags of dropped peers are not transmitted), consuming exactly its bytes, whatever follows. *)
Theorem c06_roundtrip : forall m, emit_ok m ->
  forall rest, exists a, decode (encode_spec m ++ rest) = DMsg (norm m) (len (encode_spec m)) a.
Proof. exact rt_all. Qed.
Print Assumptions c06_roundtrip.

(* the canonical bencoder is read back by the model of the bencode library: a dictionary of
   entries that are each read back, whatever follows it *)
Theorem c06_bencode_dict : forall f es rest, Forall (good_entry f) es -> (length es < f)%nat ->
  bparse (S f) (benc_d (map ekv es) ++ rest) = BOk (BDict (map evv es)) rest (ecost es 0).
Proof. exact bparse_dict. Qed.
Print Assumptions c06_bencode_dict.

(* A concatenation of messages that round-trip individually decodes, as one byte
   stream, to the same sequence; the model's stream decoder is a function of the
   byte stream alone, hence independent of how the stream is cut into reads. *)
Theorem c06_stream : forall ms, Forall rt ms ->
  forall fuel, (length ms <= fuel)%nat ->
  decode_stream fuel (concat (map encode_spec ms)) = (map norm ms, None).
Proof. exact decode_stream_concat. Qed.
Print Assumptions c06_stream.

(* ... in particular with the fuel the checker uses *)
Theorem c06_stream_whole : forall ms, Forall rt ms ->
  let w := concat (map encode_spec ms) in
  decode_stream (S (length w)) w = (map norm ms, None).
Proof. exact decode_stream_whole. Qed.
Print Assumptions c06_stream_whole.

(* ... and so for every sequence of protocol messages *)
Theorem c06_stream_all : forall ms, Forall emit_ok ms ->
  let w := concat (map encode_spec ms) in decode_stream (S (length w)) w = (map norm ms, None).
Proof. exact stream_all. Qed.
Print Assumptions c06_stream_all.
