(* Properties/C06.v — Emitted messages round-trip and match an independent codec. *)
From Storrent Require Import Base.Bytes Base.Bencode Model.Wire Model.WireSpec Proof.WireSpec.
Open Scope N_scope.

(* Every core message (BEP 3/5/6), bitfield, piece and lt_donthave, with every field
   value in range, written by the independent encoder, is read back by the model of
   protocol.Read as the same message, consuming exactly its bytes, whatever follows.
   PARTIAL: [fixed_width] excludes the three bencoded extension messages (extended
   handshake, ut_metadata, ut_pex); for those the same statement is checked by the
   correspondence on generated messages (Check/WireSpecCheck.v), not yet proved. *)
Theorem c06_roundtrip_partial : forall m, fixed_width m = true ->
  forall rest, exists a, decode (encode_spec m ++ rest) = DMsg (norm m) (len (encode_spec m)) a.
Proof. exact rt_fixed. Qed.
Print Assumptions c06_roundtrip_partial.

(* A concatenation of messages that round-trip individually decodes, as one byte
   stream, to the same sequence; the model's stream decoder is a function of the
   byte stream alone, hence independent of how the stream is cut into reads. *)
Theorem c06_stream : forall ms, Forall rt ms ->
  forall fuel, (length ms <= fuel)%nat ->
  decode_stream fuel (concat (map encode_spec ms)) = (map norm ms, None).
Proof. exact decode_stream_concat. Qed.
Print Assumptions c06_stream.

(* ... in particular with the fuel the checker uses *)
Theorem c06_stream_whole : forall ms, Forall rt ms ->
  let w := concat (map encode_spec ms) in
  decode_stream (S (length w)) w = (map norm ms, None).
Proof. exact decode_stream_whole. Qed.
Print Assumptions c06_stream_whole.
