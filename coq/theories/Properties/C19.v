(* Properties/C19.v — The web UI is local-only and injection-free. *)
From Storrent Require Import Base.Bytes Base.Bencode Model.Wire Model.Tracker Model.HttpUI Proof.HttpUI.
Open Scope N_scope.

(* the Host check refuses every host that is neither localhost nor an IP literal ... *)
Theorem c19_local_only : forall hostport h,
  split_host hostport = Some h -> bytes_eqb h localhost = false -> is_ip_literal h = false ->
  check_local hostport = HostForbidden.
Proof. exact check_local_refuses. Qed.
Print Assumptions c19_local_only.

(* ... in particular every DNS name: a name has no colon and is not four decimal fields *)
Theorem c19_dns_names_are_not_ip_literals : forall h,
  count_colon h = 0 -> parse_ipv4 h = None -> is_ip_literal h = false.
Proof. exact dns_name_not_ip. Qed.
Print Assumptions c19_dns_names_are_not_ip_literals.

(* for every string whatsoever, its HTML-escaped form contains no tag or attribute
   delimiter, so it cannot open or close an element or an attribute value *)
Theorem c19_html_escaped : forall s,
  forallb (fun c => negb (is_tag_meta c)) (html_escape s) = true.
Proof. exact html_escape_no_meta. Qed.
Print Assumptions c19_html_escaped.

(* for every byte string, its path-escaped form (used inside href attributes and in
   playlist URLs) contains no delimiter, whitespace or control character *)
Theorem c19_url_escaped : forall s,
  forallb (fun c => c <? 256) s = true ->
  forallb (fun c => negb (is_url_meta c)) (path_escape s) = true.
Proof. exact path_escape_no_meta. Qed.
Print Assumptions c19_url_escaped.

(* a playlist title never contains a line break, whatever the file name *)
Theorem c19_playlist_lines : forall s,
  forallb (fun c => negb ((c =? 10) || (c =? 13))) (m3u_title s) = true.
Proof. exact m3u_title_one_line. Qed.
Print Assumptions c19_playlist_lines.
