(* Properties/C03.v — Piece memory is accounted, evictable to the low mark, and fully released. *)
From Coq Require Import ZArith.
From Storrent Require Import Base.Bytes Model.PieceStore Model.Expire Proof.PieceStore Proof.Expire.
Open Scope N_scope.

(* In every reachable state of the piece store (any interleaving of block arrivals,
   finalisations with right and wrong hashes, reads, eviction passes and deletion): the number
   of pieces counted and the bytes accounted by the allocator are exactly those of the pieces
   that hold a buffer ([acct]); a buffer is allocated once and freed once. *)
Theorem c03_accounting : forall H expected nblocks plen n l,
  let s := run H expected nblocks plen (init n) l in
  (st_count s, st_alloc s) = acct plen 0 (st_pieces s).
Proof. exact accounting_all. Qed.
Print Assumptions c03_accounting.

(* No buffer is freed while it is being hashed: eviction skips a busy piece and deletion waits. *)
Theorem c03_busy_is_kept : forall H expected nblocks plen s i a,
  pc_state (get s i) = Busy -> (i < length (st_pieces s))%nat ->
  a = ADel i \/ a = ADelForce i \/ (exists b d, a = AAdd i b d) \/ a = AFinBegin i ->
  fst (step H expected nblocks plen s a) = s.
Proof. exact busy_is_kept. Qed.
Print Assumptions c03_busy_is_kept.

(* Once the torrent is marked deleted a piece that has been released stays released, whatever
   happens afterwards: nothing is allocated for a deleted torrent. *)
Theorem c03_deleted_stays_empty : forall H expected nblocks plen s a j,
  st_deleted s = true -> (j < length (st_pieces s))%nat -> pc_buf (get s j) = None -> pc_state (get s j) = Incomplete ->
  st_deleted (fst (step H expected nblocks plen s a)) = true /\
  pc_buf (get (fst (step H expected nblocks plen s a)) j) = None /\
  pc_state (get (fst (step H expected nblocks plen s a)) j) = Incomplete /\
  length (st_pieces (fst (step H expected nblocks plen s a))) = length (st_pieces s).
Proof. exact deleted_stays_empty. Qed.
Print Assumptions c03_deleted_stays_empty.

(* An eviction reports a dropped piece as complete exactly when it was readable. *)
Theorem c03_evict_reports : forall plen s i c,
  snd (free plen s i) = RDeleted c -> (c = true <-> pc_state (get s i) = Complete).
Proof. exact evict_reports. Qed.
Print Assumptions c03_evict_reports.

(* The global pass (tor.Expire, Model/Expire.v, tied to the code by the per-torrent audit of the
   harness): when it decides to evict, memory was at or above the high mark; the share it hands out
   is at least low/n, so torrents within their fair share are never asked to evict; and if every
   torrent that is asked comes down to the share (each per-torrent pass evicts to its target:
   c03_evict_reports and the accounting theorem) while the others are left alone, the total is at
   most the low-water mark — for any number of torrents of any sizes and any mark. *)
Theorem c03_fair_shares : forall mark space sizes f2,
  expire_plan mark space sizes = ((-1)%Z, Some f2) ->
  (mark <= space)%Z /\
  (low_mark mark / Z.of_nat (length sizes) <= f2)%Z /\
  forall afters,
    Forall2 (fun b a => if asked f2 b then (0 <= a <= f2)%Z else a = b) sizes afters ->
    (zsum afters <= low_mark mark)%Z.
Proof. exact expire_fair. Qed.
Print Assumptions c03_fair_shares.

(* it asks for eviction only at or above the high mark, reports "plenty of room" only below the
   middle mark *)
Theorem c03_global_decision : forall mark space sizes rc share,
  expire_plan mark space sizes = (rc, share) ->
  (rc = 1%Z -> (space < (low_mark mark + mark) / 2)%Z) /\
  (rc = (-1)%Z -> (mark <= space)%Z /\ share <> None) /\
  (rc = 1%Z \/ rc = 0%Z \/ rc = (-1)%Z).
Proof. exact expire_decision. Qed.
Print Assumptions c03_global_decision.
