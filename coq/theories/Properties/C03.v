(* Properties/C03.v — Piece memory is accounted, evictable to the low mark, and fully released. *)
From Storrent Require Import Base.Bytes Model.PieceStore Proof.PieceStore.
Open Scope N_scope.

(* In every reachable state of the piece store (any interleaving of block arrivals,
   finalisations with right and wrong hashes, reads, eviction passes and deletion): the number
   of pieces counted and the bytes accounted by the allocator are exactly those of the pieces
   that hold a buffer ([acct]); a buffer is allocated once and freed once. *)
Theorem c03_accounting : forall H expected nblocks plen n l,
  let s := run H expected nblocks plen (init n) l in
  (st_count s, st_alloc s) = acct plen 0 (st_pieces s).
Proof. intros H expected nblocks plen n l. exact (proj2 (run_inv H expected nblocks plen n l)). Qed.
Print Assumptions c03_accounting.

(* No buffer is freed while it is being hashed: eviction skips a busy piece and deletion waits. *)
Theorem c03_busy_is_kept : forall H expected nblocks plen s i a,
  pc_state (get s i) = Busy -> (i < length (st_pieces s))%nat ->
  a = ADel i \/ a = ADelForce i \/ (exists b d, a = AAdd i b d) \/ a = AFinBegin i ->
  fst (step H expected nblocks plen s a) = s.
Proof. exact busy_is_kept. Qed.
Print Assumptions c03_busy_is_kept.

(* Once the torrent is marked deleted a piece that has been released stays released, whatever
   happens afterwards: nothing is allocated for a deleted torrent. *)
Theorem c03_deleted_stays_empty : forall H expected nblocks plen s a j,
  st_deleted s = true -> (j < length (st_pieces s))%nat -> pc_buf (get s j) = None -> pc_state (get s j) = Incomplete ->
  st_deleted (fst (step H expected nblocks plen s a)) = true /\
  pc_buf (get (fst (step H expected nblocks plen s a)) j) = None /\
  pc_state (get (fst (step H expected nblocks plen s a)) j) = Incomplete /\
  length (st_pieces (fst (step H expected nblocks plen s a))) = length (st_pieces s).
Proof. exact deleted_stays_empty. Qed.
Print Assumptions c03_deleted_stays_empty.

(* An eviction reports a dropped piece as complete exactly when it was readable. *)
Theorem c03_evict_reports : forall plen s i c,
  snd (free plen s i) = RDeleted c -> (c = true <-> pc_state (get s i) = Complete).
Proof. exact evict_reports. Qed.
Print Assumptions c03_evict_reports.
