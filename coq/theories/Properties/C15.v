(* Properties/C15.v — Trackers: hostile replies are harmless, announces are disciplined. *)
From Storrent Require Import Base.Bytes Base.Bencode Model.Wire Model.Tracker Proof.Tracker.
Open Scope N_scope.

(* whatever the four attempts of the UDP retransmission loop meet — write errors, read
   errors/timeouts, short, foreign-transaction-id, error-action or wrong-action
   datagrams, in any order — the loop returns a reply or an error, never panic("eek") *)
Theorem c15_udp_total : forall atts min action tid,
  atts <> [] -> udp_request_reply atts min action tid <> UPanic.
Proof. exact udp_request_reply_total. Qed.
Print Assumptions c15_udp_total.

(* compact peer lists are consumed entry by entry, in order: the first entry's address
   and big-endian port, then the entries of the remainder *)
Theorem c15_peers_exact : forall fuel sz e r,
  len e = sz + 2 -> e <> [] ->
  entries (S fuel) sz (e ++ r) =
  ((firstn (N.to_nat sz) e,
    (match skipn (N.to_nat sz) e with a :: b :: _ => 256 * a + b | _ => 0 end) mod 65536)
     :: fst (entries fuel sz r), snd (entries fuel sz r)).
Proof. exact entries_cons. Qed.
Print Assumptions c15_peers_exact.

(* an announce attempt never leaves the tracker locked, whatever the network did *)
Theorem c15_not_stuck : forall b now oc,
  tb_locked b = false -> tb_locked (fst (fst (announce b now oc))) = false.
Proof. exact announce_unlocked. Qed.
Print Assumptions c15_not_stuck.

Theorem c15_busy_only_if_locked : forall b now, get_state b now = TBusy <-> tb_locked b = true.
Proof. exact get_state_busy. Qed.
Print Assumptions c15_busy_only_if_locked.

(* an attempt that does not contact the tracker changes nothing, so "consecutive
   contacts" are exactly pairs of successful [announce] steps: *)
Theorem c15_no_contact_no_change : forall b now oc r, announce b now oc = (r, false) -> fst r = b.
Proof. exact announce_not_contacted. Qed.
Print Assumptions c15_no_contact_no_change.

(* two consecutive contacts are more than max(5 min, interval in force) apart, where the
   interval in force is the announced one when it exceeds a minute and otherwise at
   least 15 minutes (failure, absurd or missing interval) *)
Theorem c15_spacing : forall b now oc b' res now' oc' b'' res',
  announce b now oc = (b', res, true) ->
  announce b' now' oc' = (b'', res', true) ->
  (now + effective (tb_interval b') < now')%Z.
Proof. exact announce_spacing. Qed.
Print Assumptions c15_spacing.

Theorem c15_effective_interval : forall i,
  (5 * minute <= effective i)%Z /\ (0 < i -> i <= effective i)%Z.
Proof. exact effective_ge. Qed.
Print Assumptions c15_effective_interval.

Theorem c15_interval_in_force : forall b now oc b' res,
  announce b now oc = (b', res, true) ->
  ((minute < oc_interval oc -> tb_interval b' = oc_interval oc) /\
   (oc_interval oc <= minute -> 15 * minute <= tb_interval b'))%Z.
Proof. exact announce_interval. Qed.
Print Assumptions c15_interval_in_force.
