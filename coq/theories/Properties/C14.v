(* Properties/C14.v — Web-seed data lands exactly where it belongs. *)
From Storrent Require Import Base.Bytes Base.Bencode Model.Wire Model.Torfile Model.Namespace Model.Webseed Proof.Webseed Proof.WebseedContent.
Open Scope N_scope.

(* For every file table laid out contiguously with non-negative lengths (what
   MetadataComplete accepts, by C13) and every range [o, o+l) inside it, the file chunks
   are consecutive, each lies inside the file it names (zero-length files never
   appear), and together they cover exactly l bytes starting at o. *)
Theorem c14_filechunks_partition : forall files base o l,
  laid_out files base -> (base <= o)%Z -> (0 < l)%Z -> (o + l <= base + total_len files)%Z ->
  covers (fc_loop files o l) files o /\ chunks_len (fc_loop files o l) = l.
Proof. exact fc_loop_spec. Qed.
Print Assumptions c14_filechunks_partition.

(* Whatever is written to the writer and however it is split into Write calls, a call
   stores bytes only at the writer's current offset, inside [offset, offset + remaining),
   keeps offset + remaining constant (so nothing is ever stored at or beyond the end
   of the reserved range) and never buffers more than remains. *)
Theorem c14_writer_in_range : forall pl s p s' n evs err,
  w_Write pl s p = (s', n, evs, err) ->
  (forall o d, In (WStore o d) evs -> w_off s <= o /\ o + len d <= w_off s + w_count s) /\
  w_off s' + w_count s' = w_off s + w_count s /\ len (w_buf s') <= w_count s' \/ evs = [].
Proof. exact w_Write_in_range. Qed.
Print Assumptions c14_writer_in_range.

(* Pieces.AddData never consumes more than it was given *)
Theorem c14_adddata_bounded : forall pl off n, fst (add_data pl off n) <= n.
Proof. exact add_data_le. Qed.
Print Assumptions c14_adddata_bounded.

(* Whatever the server answers, a response that is accepted is copied only up to the
   requested length of the file chunk. *)
Theorem c14_response_limited : forall status cr cl offset length flength lim,
  get_decide status cr cl offset length flength = GCopy lim -> lim = length.
Proof. exact get_decide_limit. Qed.
Print Assumptions c14_response_limited.

(* Release accounting: any sequence of Writes (any sizes, whatever AddData accepts or refuses)
   followed by Close reports consecutive ranges - TorData for what was stored, TorDrop for the
   remainder - that start at the writer's initial offset and add up to exactly the length that was
   reserved; nothing is released twice, nothing is forgotten. *)
Theorem c14_writer_releases_all : forall pl s ws,
  w_ok s ->
  let (s1, evs) := w_run pl s ws in
  let (s2, cl) := w_Close s1 in
  chained (w_off s) (released (evs ++ cl)) /\ total_rel (released (evs ++ cl)) = w_count s /\ w_count s2 = 0.
Proof. exact writer_releases_all. Qed.
Print Assumptions c14_writer_releases_all.

(* The data lands where it belongs, byte for byte.  One Write: the bytes it stores, followed by what
   it keeps buffered, are the bytes buffered before followed by the part of p it accepted; every
   store begins where the previous one ended, the first at the writer's offset. *)
Theorem c14_write_content : forall pl s p s' n evs err,
  w_ok s -> w_Write pl s p = (s', n, evs, err) ->
  stored evs ++ w_buf s' = w_buf s ++ firstn (N.to_nat n) p /\
  placed (w_off s) (stores evs) /\ w_off s' = w_off s + len (stored evs) /\ n <= len p.
Proof. exact w_Write_content. Qed.
Print Assumptions c14_write_content.

(* ReadFrom (the path the web-seed fetcher uses: io.Copy from the HTTP body), whatever the sizes of
   the reads the body delivers: the bytes stored and then buffered are the bytes buffered before
   followed by exactly the first [total] bytes of the body, stored at consecutive offsets from the
   writer's offset; the rest of the body is untouched.  So byte k of the response lands at offset
   w_off + len(buffer) + k of the piece, or nowhere. *)
Theorem c14_readfrom_content : forall pl s stream cuts s' total evs err rest,
  w_ReadFrom pl s stream cuts = (s', total, evs, err, rest) ->
  total <= len stream /\ rest = skipn (N.to_nat total) stream /\
  stored evs ++ w_buf s' = w_buf s ++ firstn (N.to_nat total) stream /\
  placed (w_off s) (stores evs) /\ w_off s' = w_off s + len (stored evs).
Proof. exact w_ReadFrom_content. Qed.
Print Assumptions c14_readfrom_content.
