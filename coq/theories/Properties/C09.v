(* Properties/C09.v — Scheduler bookkeeping is conserved. *)
From Storrent Require Import Base.Bytes Base.Bencode Gen.Consts Model.Wire Model.PeerCore Model.Sched Model.AvailSys
  Proof.PeerCore Proof.Conserve Proof.Sched Proof.Avail Proof.AvailSys.
Open Scope N_scope.

(* A peer answers every block it is commanded to request with exactly one TorData or TorDrop.
   For every step of the peer core (Model/PeerCore.v: any message from the remote peer, any
   command of the torrent, any expiry tick with any set of timed-out requests, any upload tick,
   death of the writer; any congestion, any oracle values) and every block c:
     requests for c held after the step + TorData/TorDrop for c emitted by the step
   = requests for c held before the step + occurrences of c in the command, if it is a PeerRequest.
   Geometry: piece size a positive multiple of 16 KiB, block numbers within 32 bits. *)
Theorem c09_peer_conserves : forall g,
  0 < cpp g -> psize g = cpp g * ChunkSize -> num_pieces g * cpp g <= 4294967296 ->
  forall s ballast o k c,
  s_geo s = Some g -> op_legit g o ->
  bal g (fst (step s ballast o k)) c = (held (s_reqs s) c + op_cmd o c)%nat /\
  s_geo (a_st (fst (step s ballast o k))) = Some g.
Proof. exact step_conserves. Qed.
Print Assumptions c09_peer_conserves.

(* When a peer's main loop exits, everything it still holds is released and nothing is kept. *)
Theorem c09_exit_releases : forall g,
  0 < cpp g -> psize g = cpp g * ChunkSize -> num_pieces g * cpp g <= 4294967296 ->
  forall s c, s_geo s = Some g ->
  let a := clear_requests (acc0 s) true in
  cnt (cev g (a_evs a)) c = held (s_reqs s) c /\ held (s_reqs (a_st a)) c = 0%nat.
Proof. exact exit_releases. Qed.
Print Assumptions c09_exit_releases.

(* The torrent's handler for TorData / TorDrop releases exactly the block the event names
   (in particular the torrent's final, short block). *)
Theorem c09_handler_releases_one : forall psize f i b l,
  0 < l -> l <= ChunkSize -> b mod ChunkSize = 0 -> b + l <= psize ->
  release psize f i b l = note_inflight f (i * (psize / ChunkSize) + b / ChunkSize) false.
Proof. exact release_single. Qed.
Print Assumptions c09_handler_releases_one.

(* The system: any number of peers joining, being sent commands (counted when their queue
   accepts them), handling commands, messages and ticks in any order, exiting at any moment
   (also with commands still queued), and the torrent handling its events in order, with
   events and commands in transit for any length of time.  In every reachable state, for every
   block: in-flight = held by running peers + waiting in command queues + being released by
   events in transit. *)
Theorem c09_invariant : forall g,
  0 < cpp g -> psize g = cpp g * ChunkSize -> num_pieces g * cpp g <= 4294967296 ->
  forall ops, Inv g (fold_left (sys_step g) ops sys_init).
Proof. exact run_inv. Qed.
Print Assumptions c09_invariant.

(* Hence, once the events in transit have been processed, the in-flight count of every block is
   the number of requests for it outstanding at the connected peers ... *)
Theorem c09_conserved_at_quiescence : forall g,
  0 < cpp g -> psize g = cpp g * ChunkSize -> num_pieces g * cpp g <= 4294967296 ->
  forall ops,
  let y := fold_left (sys_step g) ops sys_init in
  quiescent y -> forall c, y_inflight y c = total_held y c.
Proof. exact conserved_at_quiescence. Qed.
Print Assumptions c09_conserved_at_quiescence.

(* ... and zero when nobody is connected. *)
Theorem c09_zero_when_alone : forall g,
  0 < cpp g -> psize g = cpp g * ChunkSize -> num_pieces g * cpp g <= 4294967296 ->
  forall ops,
  let y := fold_left (sys_step g) ops sys_init in
  quiescent y -> (forall p, In p (y_peers y) -> sp_alive p = false) -> forall c, y_inflight y c = 0%nat.
Proof. exact zero_when_alone. Qed.
Print Assumptions c09_zero_when_alone.

(* ---------- availability ---------- *)

(* Every change of what a peer advertises is reported.  For every step of the peer core (any
   message — Have, Bitfield, HaveAll, HaveNone, don't-have, repeated or changing, before or after
   the metadata is known — any command, tick or oracle value) from ANY state with a well-formed
   bitmap, and every piece i: reading the TorPeerHave / TorPeerBitmap events of the step in order
   (a bitmap event counts once for every set bit, as the torrent's loop does), the torrent's view
   of "this peer has i" goes from what the peer advertised before to what it advertises after,
   and no event says have(true) for a piece the torrent already counts, or have(false) for one
   it does not (arun = None). *)
Theorem c09_peer_reports_bitmap_changes : forall i s ballast o k,
  wf_bm (peer_bm s) ->
  let a := fst (step s ballast o k) in
  wf_bm (peer_bm (a_st a)) /\ arun (adv s i) (dirs i (a_evs a)) = Some (adv (a_st a) i).
Proof. exact step_advertised. Qed.
Print Assumptions c09_peer_reports_bitmap_changes.

(* When the peer's main loop exits, whatever it advertised is retracted. *)
Theorem c09_exit_retracts : forall i s,
  wf_bm (peer_bm s) -> arun (adv s i) (dirs i (a_evs (retract_bitmap (acc0 s)))) = Some false.
Proof. exact exit_retracts. Qed.
Print Assumptions c09_exit_retracts.

(* The system of Model/AvailSys.v: any number of peers joining (metadata known or not), handling
   messages, commands and ticks in any order, exiting at any moment, and the torrent applying
   their events in order to its saturating 16-bit counters (peer_have / peer_bitmap), with events
   in transit for any length of time.  Once the events in transit have been processed the
   availability of every piece is the number of connected peers advertising it (at most 65535
   peers ever joined: the counters saturate there) ... *)
Theorem c09_avail_at_quiescence : forall ops i,
  let y := fold_left asys_step ops asys_init in
  N.of_nat (length (v_peers y)) <= 65535 -> v_evq y = [] -> cget (v_avail y) i = N.of_nat (advertisers y i).
Proof. exact avail_at_quiescence. Qed.
Print Assumptions c09_avail_at_quiescence.

(* ... and zero when nobody is connected. *)
Theorem c09_avail_zero_when_alone : forall ops i,
  let y := fold_left asys_step ops asys_init in
  N.of_nat (length (v_peers y)) <= 65535 -> v_evq y = [] -> (forall p, In p (v_peers y) -> ap_alive p = false) ->
  cget (v_avail y) i = 0.
Proof. exact avail_zero_when_alone. Qed.
Print Assumptions c09_avail_zero_when_alone.
