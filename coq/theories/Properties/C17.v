(* Properties/C17.v — Torrent lifecycle: no call hangs, deletion is complete. *)
From Coq Require Import String.
From Storrent Require Import Base.Bytes Model.Lifecycle Gen.TorApi Proof.Lifecycle Proof.LifecycleGen.

(* [tor_apis] is extracted from /repo/tor/*.go on every run: for each exported method of Torrent
   and Reader (and package function) the blocking channel operations in order, with the
   alternatives of every select.  For every one of them, whether the event queue has room or not,
   whether the loop is running or already stopped when the call starts, and however the loop's
   steps (taking the event, answering it, stopping at any moment) interleave with the call's:
   no reachable configuration has the loop stopped and the call blocked on an operation none of
   whose alternatives can ever become ready. *)
Theorem c17_no_call_hangs : forall name prog,
  In (name, prog) tor_apis ->
  forall l room c', reach (prog, NotSent, l, room) c' -> ~ stuck c'.
Proof. exact no_call_hangs. Qed.
Print Assumptions c17_no_call_hangs.

(* the exploration is complete for any program: a true answer excludes every reachable stuck state *)
Theorem c17_explorer_sound : forall prog,
  call_safe prog = true ->
  forall l room c', reach (prog, NotSent, l, room) c' -> ~ stuck c'.
Proof. exact call_safe_sound. Qed.
Print Assumptions c17_explorer_sound.

(* every operation the property names was found by the translator *)
Theorem c17_apis_present :
  forallb (fun n => existsb (fun a => String.eqb (fst a) n) tor_apis)
    ["Torrent.GetStats"; "Torrent.GetAvailable"; "Torrent.DropPeer"; "Torrent.GetPeer"; "Torrent.GetPeers";
     "Torrent.GetKnown"; "Torrent.GetKnowns"; "Torrent.Have"; "Torrent.GetConf"; "Torrent.SetConf";
     "Torrent.AddKnown"; "Torrent.BadPeer"; "Torrent.NewPeer"; "Torrent.Request"; "Torrent.Kill";
     "Announce"; "Reader.Read"]%string = true.
Proof. exact apis_present. Qed.
Print Assumptions c17_apis_present.
