(* Properties/C18.v — Privacy switches are honoured. *)
From Storrent Require Import Base.Bytes Model.Privacy Proof.Privacy.
Open Scope N_scope.

(* For every torrent (proxied or not, with or without web seeds, any external ports), every
   initial configuration and every sequence of configuration changes, announce requests, ticks,
   fetch attempts, new peers and incoming handshakes: each contact the torrent makes is permitted
   by the switches in force at that moment - the DHT is announced to only when the mode is not
   none, with a port only in normal mode without a proxy; trackers only while tracker use is on,
   with zero ports when proxied; web seeds only while web-seed use is on; a proxied torrent tells
   its peers neither version nor port nor DHT port and accepts no incoming connection. *)
Theorem c18_every_contact_permitted : forall es s sk,
  In sk (prun s es) -> permitted (fst sk) (snd sk) = true.
Proof. exact run_permitted. Qed.
Print Assumptions c18_every_contact_permitted.

Theorem c18_step_permitted : forall s e k,
  In k (snd (pstep s e)) -> permitted (fst (pstep s e)) k = true.
Proof. exact step_permitted. Qed.
Print Assumptions c18_step_permitted.
