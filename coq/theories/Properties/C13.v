(* Properties/C13.v — Torrent files: total parsing, consistent geometry, identity preserved. *)
From Storrent Require Import Base.Bytes Base.Bencode Model.Wire Model.Torfile Proof.Torfile.
Open Scope N_scope.

(* reading any byte string as a .torrent never crashes: no division by zero, no
   negative allocation size is reachable (the model carries these as MPanic/RPanic) *)
Theorem c13_total : forall bs, read_torrent bs <> RPanic.
Proof. exact read_torrent_total. Qed.
Print Assumptions c13_total.

(* an accepted torrent has a self-consistent geometry: positive piece length that is a
   multiple of 16 KiB, non-negative file lengths laid out contiguously from offset 0 and
   summing to the total, one in-flight slot per 16 KiB block, and a piece table and a
   hash table with exactly ceil(total / piece length) entries *)
Theorem c13_geometry : forall bs raw g cd tr ul hs,
  read_torrent bs = ROk raw g cd tr ul hs -> geometry_ok g = true.
Proof. exact read_torrent_geometry. Qed.
Print Assumptions c13_geometry.

(* the same for metadata obtained from peers (magnet links go through the same function) *)
Theorem c13_metadata_geometry : forall info g,
  metadata_complete info = MOk g -> geometry_ok g = true.
Proof. exact metadata_complete_geometry. Qed.
Print Assumptions c13_metadata_geometry.

Theorem c13_metadata_total : forall info, metadata_complete info <> MPanic.
Proof. exact metadata_complete_no_panic. Qed.
Print Assumptions c13_metadata_total.
