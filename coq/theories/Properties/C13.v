(* Properties/C13.v — Torrent files: total parsing, consistent geometry, identity preserved. *)
From Coq Require Import String.
From Storrent Require Import Base.Bytes Base.Bencode Model.Wire Model.Torfile Proof.Torfile Proof.TorSlice.
Open Scope N_scope.

(* reading any byte string as a .torrent never crashes: no division by zero, no
   negative allocation size is reachable (the model carries these as MPanic/RPanic) *)
Theorem c13_total : forall bs, read_torrent bs <> RPanic.
Proof. exact read_torrent_total. Qed.
Print Assumptions c13_total.

(* an accepted torrent has a self-consistent geometry: positive piece length that is a
   multiple of 16 KiB, non-negative file lengths laid out contiguously from offset 0 and
   summing to the total, one in-flight slot per 16 KiB block, and a piece table and a
   hash table with exactly ceil(total / piece length) entries *)
Theorem c13_geometry : forall bs raw g cd tr ul hs,
  read_torrent bs = ROk raw g cd tr ul hs -> geometry_ok g = true.
Proof. exact read_torrent_geometry. Qed.
Print Assumptions c13_geometry.

(* the same for metadata obtained from peers (magnet links go through the same function) *)
Theorem c13_metadata_geometry : forall info g,
  metadata_complete info = MOk g -> geometry_ok g = true.
Proof. exact metadata_complete_geometry. Qed.
Print Assumptions c13_metadata_geometry.

Theorem c13_metadata_total : forall info, metadata_complete info <> MPanic.
Proof. exact metadata_complete_no_panic. Qed.
Print Assumptions c13_metadata_total.

(* The info-hash is the SHA-1 of the info dictionary exactly as it appears in the input: the bytes
   kept as Torrent.Info (and hashed) by an accepted torrent file are a slice of the input,
   input = pre ++ hdr ++ raw ++ post, where hdr is a bencoded string header that parses to the key
   "info" and raw is exactly one complete bencoded value — whatever the key order, extra keys, or
   the encoding of the dictionary inside (nothing is re-encoded).
   (That the hash stored is SHA-1 of these bytes, and that WriteTorrent emits them again, is checked
   on the implementation by the harness on every run.) *)
Theorem c13_info_is_slice : forall bs raw g cd tr ul hs,
  read_torrent bs = ROk raw g cd tr ul hs ->
  exists pre hdr post key v k1 k2,
    bs = pre ++ hdr ++ raw ++ post /\
    parse_bstr (hdr ++ raw ++ post) = BOk key (raw ++ post) k1 /\ key = ascii_bytes "info" /\
    bparse (S (length (raw ++ post))) (raw ++ post) = BOk v post k2.
Proof. exact info_is_slice. Qed.
Print Assumptions c13_info_is_slice.
