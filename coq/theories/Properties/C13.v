(* Properties/C13.v — Torrent files: total parsing, consistent geometry, identity preserved. *)
From Coq Require Import String.
From Storrent Require Import Base.Bytes Base.Bencode Model.Wire Model.Torfile Proof.Torfile Proof.TorSlice Model.TorWrite Model.DepthLimiter Model.Magnet Proof.TorWriteRT Proof.TopDepth Proof.Magnet.
Open Scope N_scope.

(* reading any byte string as a .torrent never crashes: no division by zero, no
   negative allocation size is reachable (the model carries these as MPanic/RPanic) *)
Theorem c13_total : forall bs, read_torrent bs <> RPanic.
Proof. exact read_torrent_total. Qed.
Print Assumptions c13_total.

(* an accepted torrent has a self-consistent geometry: positive piece length that is a
   multiple of 16 KiB, non-negative file lengths laid out contiguously from offset 0 and
   summing to the total, one in-flight slot per 16 KiB block, and a piece table and a
   hash table with exactly ceil(total / piece length) entries *)
Theorem c13_geometry : forall bs raw g cd tr ul hs,
  read_torrent bs = ROk raw g cd tr ul hs -> geometry_ok g = true.
Proof. exact read_torrent_geometry. Qed.
Print Assumptions c13_geometry.

(* the same for metadata obtained from peers (magnet links go through the same function) *)
Theorem c13_metadata_geometry : forall info g,
  metadata_complete info = MOk g -> geometry_ok g = true.
Proof. exact metadata_complete_geometry. Qed.
Print Assumptions c13_metadata_geometry.

Theorem c13_metadata_total : forall info, metadata_complete info <> MPanic.
Proof. exact metadata_complete_no_panic. Qed.
Print Assumptions c13_metadata_total.

(* The info-hash is the SHA-1 of the info dictionary exactly as it appears in the input: the bytes
   kept as Torrent.Info (and hashed) by an accepted torrent file are a slice of the input,
   input = pre ++ hdr ++ raw ++ post, where hdr is a bencoded string header that parses to the key
   "info" and raw is exactly one complete bencoded value — whatever the key order, extra keys, or
   the encoding of the dictionary inside (nothing is re-encoded).
   (That the hash stored is SHA-1 of these bytes, and that WriteTorrent emits them again, is checked
   on the implementation by the harness on every run.) *)
Theorem c13_info_is_slice : forall bs raw g cd tr ul hs,
  read_torrent bs = ROk raw g cd tr ul hs ->
  exists pre hdr post key v k1 k2,
    bs = pre ++ hdr ++ raw ++ post /\
    parse_bstr (hdr ++ raw ++ post) = BOk key (raw ++ post) k1 /\ key = ascii_bytes "info" /\
    bparse (S (length (raw ++ post))) (raw ++ post) = BOk v post k2.
Proof. exact info_is_slice. Qed.
Print Assumptions c13_info_is_slice.

(* The .torrent file storrent serves back (tor.WriteTorrent, Model/TorWrite.v — its bytes are compared
   with the implementation's on every accepted case of every run) reads back as the same torrent:
   the info dictionary byte for byte, hence the same info-hash, the same creation date, tracker
   tiers (a single tracker is written as "announce" only, anything else as "announce-list") and
   web seeds.  For every info dictionary that is one bencoded value (nesting less than 64 levels: the file adds one
   level and the reader refuses more than 64) accepted by MetadataComplete,
   every creation date, and all trackers and web seeds with URLs the reader accepts. *)
Theorem c13_write_read : forall raw v k g cd tr ul hs,
  bdecode raw = BOk v [] k -> vdepth v < 64 -> metadata_complete raw = MOk g ->
  (- 2 ^ 63 <= cd < 2 ^ 63)%Z -> tiers_ok tr -> urls_ok ul -> urls_ok hs ->
  read_torrent (write_torrent raw cd tr ul hs) = ROk raw g cd tr ul hs.
Proof. exact write_read. Qed.
Print Assumptions c13_write_read.

(* parsing depends only on the bytes it consumes (used above: the info dictionary reads the same
   inside the written file as it did inside the original one) *)
Theorem c13_parse_is_local : forall f u r v k,
  bparse f (u ++ r) = BOk v r k -> forall r', bparse f (u ++ r') = BOk v r' k.
Proof. exact Proof.BencodeLocal.bparse_local. Qed.
Print Assumptions c13_parse_is_local.

(* Nesting is bounded (fix dc6da02; before it a few megabytes of nested lists in a .torrent file, in
   metadata received for a magnet link or in a tracker's reply overflowed the recursive decoder's
   stack and killed the process): an accepted file nests at most 64 levels deep, and so does an
   accepted info dictionary. *)
Theorem c13_depth_limited : forall bs raw g cd tr ul hs,
  read_torrent bs = ROk raw g cd tr ul hs ->
  exists es, top_entries bs = Some es /\ entries_depth es <= max_bencode_depth.
Proof. exact read_torrent_depth. Qed.
Print Assumptions c13_depth_limited.

Theorem c13_metadata_depth_limited : forall info g,
  metadata_complete info = MOk g -> exists v r k, bdecode info = BOk v r k /\ vdepth v <= max_bencode_depth.
Proof. exact metadata_depth. Qed.
Print Assumptions c13_metadata_depth_limited.

(* The model's depth rule is the limiter's: for a file whose top-level dictionary the reader can take
   apart, the model refuses it for its nesting exactly when protocol.LimitBencodeDepth, which
   tor.ReadTorrent puts in front of the decoder, fails on it. *)
Theorem c13_depth_rule_is_limiter : forall bs es, top_entries bs = Some es ->
  lim_passes bs = negb (max_bencode_depth <? entries_depth es).
Proof. exact torfile_depth_is_limiter. Qed.
Print Assumptions c13_depth_rule_is_limiter.

(* Magnet links (tor.ReadMagnet and hash.Parse, Model/Magnet.v, compared with the implementation on
   every run): whatever string is read, a torrent that comes back is identified by a 20-byte hash. *)
Theorem c13_magnet_hash_length : forall m h, read_magnet m = MgOk h -> len h = 20.
Proof. exact magnet_hash_len. Qed.
Print Assumptions c13_magnet_hash_length.

(* Identity is preserved through a link: the magnet link for any 20-byte hash - magnet:?xt=urn:btih:
   and the hash in hex - followed by nothing or by any further parameters (&dn=, &tr=, &ws=, other
   xt values, any bytes at all after the '&'), reads back as exactly that hash. *)
Theorem c13_magnet_roundtrip : forall h params,
  List.length h = 20%nat -> Forall (fun b => b < 256) h ->
  params = [] \/ (exists r, params = 38 :: r) ->
  read_magnet (magnet_of h params) = MgOk h.
Proof. exact magnet_roundtrip. Qed.
Print Assumptions c13_magnet_roundtrip.

(* ... and so does its base32 form (RFC 4648, the other spelling hash.Parse accepts): 32 characters that
   happen to be hexadecimal digits too are still read as base32, because as hex they make 16 bytes. *)
Theorem c13_magnet_roundtrip_base32 : forall h params,
  List.length h = 20%nat -> Forall (fun b => b < 256) h ->
  params = [] \/ (exists r, params = 38 :: r) ->
  read_magnet (magnet_of_b32 h params) = MgOk h.
Proof. exact magnet_roundtrip_b32. Qed.
Print Assumptions c13_magnet_roundtrip_base32.

(* The other parameters of a link (Model/Magnet.v magnet_params: name, tracker tiers, web seeds; compared
   with what tor.ReadMagnet builds on every run): the link for a hash with one tracker u - any string
   that tracker.New accepts and that contains no '&' - gives that hash, the tracker u in a tier of its
   own, no web seed and no name. *)
Theorem c13_magnet_tracker : forall h u,
  List.length h = 20%nat -> Forall (fun b => b < 256) h -> url_ok u = true -> ~ In 38 u ->
  let m := magnet_of h (38 :: 116 :: 114 :: 61 :: u) in     (* ... &tr=u *)
  read_magnet m = MgOk h /\
  mp_tiers (magnet_params m) = [[u]] /\ mp_webseeds (magnet_params m) = [] /\ mp_name (magnet_params m) = [].
Proof. exact magnet_with_tracker. Qed.
Print Assumptions c13_magnet_tracker.

(* ... and with one web seed u (any http:// or https:// URL that webseed.New accepts, without '&'):
   that hash, the web seed u, no tracker and no name. *)
Theorem c13_magnet_webseed : forall h u,
  List.length h = 20%nat -> Forall (fun b => b < 256) h -> http_url u = true -> ~ In 38 u ->
  let m := magnet_of h (38 :: 119 :: 115 :: 61 :: u) in     (* ... &ws=u *)
  read_magnet m = MgOk h /\
  mp_webseeds (magnet_params m) = [u] /\ mp_tiers (magnet_params m) = [] /\ mp_name (magnet_params m) = [].
Proof. exact magnet_with_webseed. Qed.
Print Assumptions c13_magnet_webseed.
