(* Properties/C12.v — Magnet metadata is accepted only if authentic, whatever peers send. *)
From Storrent Require Import Base.Bytes Base.Bencode Model.Wire Model.Torfile Model.Metadata Proof.Metadata Proof.MetaLive.
Open Scope N_scope.

(* For every SHA-1 function H and info-hash, and every history of size votes, periodic
   requests and metadata blocks (any index, size field, payload, order, duplication,
   from any mix of peers; any tie-breaking of the size vote): if the torrent has become
   usable then the published dictionary has digest equal to the info-hash and is the
   one MetadataComplete validated (so C13's geometry theorem applies to it). *)
Theorem c12_authentic : forall (H : bytes -> bytes) ihash ops g,
  ms_complete (mrun H ihash (ms_init) ops) = Some g ->
  exists info, ms_info (mrun H ihash ms_init ops) = Some info /\ H info = ihash /\ metadata_complete info = MOk g.
Proof. exact metadata_authentic. Qed.
Print Assumptions c12_authentic.

(* ... and no event of any such history crashes the torrent's loop: the slice
   t.Info[index*16384:] is always in bounds and MetadataComplete never divides by zero *)
Theorem c12_total : forall (H : bytes -> bytes) ihash ops o,
  snd (fst (mstep H ihash (mrun H ihash ms_init ops) o)) <> GPanic.
Proof. exact metadata_no_panic. Qed.
Print Assumptions c12_total.

(* Liveness.  PARTIAL: proved from a buffer of the right size that is not full and holds only
   authentic blocks ([clean], e.g. the buffer right after the size has been guessed, or after a
   hash-mismatch reset and the next request: c12_round_after_reset_completes) — or from a torrent
   that is usable already.  Then every authentic round (blocks of the real dictionary with the real
   size, in any order, repeated, interleaved with periodic requests guessing the real size) that
   delivers every index ends with the torrent usable, with the authentic geometry.  For every
   SHA-1 function H and every valid dictionary. *)
Theorem c12_liveness_partial : forall (H : bytes -> bytes) info g,
  metadata_complete info = MOk g -> 0 < len info ->
  forall ops st,
  good info g st -> Forall (honest info) ops ->
  (forall j, (j < N.to_nat (nblocks (len info)))%nat -> (done g st \/ has info st j) \/ delivered info j ops) ->
  done g (mrun H (H info) st ops).
Proof. exact honest_round_completes. Qed.
Print Assumptions c12_liveness_partial.

Theorem c12_round_after_reset_completes : forall (H : bytes -> bytes) info g,
  metadata_complete info = MOk g -> 0 < len info ->
  forall st ops,
  ms_complete st = None -> ms_size st <> len info -> len info <= max_metadata ->
  Forall (honest info) ops ->
  (forall j, (j < N.to_nat (nblocks (len info)))%nat -> delivered info j ops) ->
  done g (mrun H (H info) st (MRequest (len info) :: ops)).
Proof. exact round_after_reset_completes. Qed.
Print Assumptions c12_round_after_reset_completes.

(* The full statement — from ANY reachable state, one authentic round after the last corruption
   suffices — is false of this model, and of tor/metadata.go (known finding
   C12-forged-block-holds-index, replayed on the implementation by the check): after a forged
   block for index 0 of a two-block dictionary, the authentic blocks 0 and 1 end in a reset. *)
Theorem c12_liveness_refuted :
  exists H info g pre ops,
    metadata_complete info = MOk g /\ 0 < len info /\
    Forall (honest info) ops /\
    (forall j, (j < N.to_nat (nblocks (len info)))%nat -> delivered info j ops) /\
    ms_complete (mrun H (H info) (mrun H (H info) ms_init pre) ops) = None.
Proof. exact liveness_from_any_state_refuted. Qed.
Print Assumptions c12_liveness_refuted.
