(* Properties/C12.v — Magnet metadata is accepted only if authentic, whatever peers send. *)
From Storrent Require Import Base.Bytes Base.Bencode Model.Wire Model.Torfile Model.Metadata Proof.Metadata.
Open Scope N_scope.

(* For every SHA-1 function H and info-hash, and every history of size votes, periodic
   requests and metadata blocks (any index, size field, payload, order, duplication,
   from any mix of peers; any tie-breaking of the size vote): if the torrent has become
   usable then the published dictionary has digest equal to the info-hash and is the
   one MetadataComplete validated (so C13's geometry theorem applies to it). *)
Theorem c12_authentic : forall (H : bytes -> bytes) ihash ops g,
  ms_complete (mrun H ihash (ms_init) ops) = Some g ->
  exists info, ms_info (mrun H ihash ms_init ops) = Some info /\ H info = ihash /\ metadata_complete info = MOk g.
Proof. exact metadata_authentic. Qed.
Print Assumptions c12_authentic.

(* ... and no event of any such history crashes the torrent's loop: the slice
   t.Info[index*16384:] is always in bounds and MetadataComplete never divides by zero *)
Theorem c12_total : forall (H : bytes -> bytes) ihash ops o,
  snd (fst (mstep H ihash (mrun H ihash ms_init ops) o)) <> GPanic.
Proof. exact metadata_no_panic. Qed.
Print Assumptions c12_total.
