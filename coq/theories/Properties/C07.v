(* Properties/C07.v — Handshakes agree and do not depend on TCP segmentation. *)
From Storrent Require Import Base.Bytes Base.Bencode Base.Crypto Model.Wire Model.Hs Model.Mse Proof.Crypto Proof.Hs Proof.Mse Proof.MseAgree Proof.Dh.
Open Scope N_scope.

(* The plain and the MSE handshake, in both roles, are the programs [client_prog] and
   [server_prog] of Model/Mse.v over the read primitives of Model/Hs.v.  [op_run] executes a
   program the way the Go code does: a buffer, Reads whose sizes the network chooses ([orc],
   any list: byte at a time, any cut points, everything coalesced), surplus kept for the next
   stage and finally handed to the message layer.  [spec_run] evaluates the same program on the
   peer's byte stream as a whole.  For every program, every stream (given as the phases the peer
   sends in reaction to our writes), every random tape and every segmentation: the outcome
   (success or the error, info-hash, peer id, capability bits, cipher), the bytes written and
   the bytes the message layer will read (init followed by the rest of the connection, decrypted
   when RC4 was negotiated) are those of the reference run.  The only exception is a peer
   that breaks the MSE framing (marker later than the 512-byte pad limit allows, data sent
   before the cipher was agreed, [p_amb]): then what storrent sees depends on timing. *)
Theorem c07_segmentation_independent : forall (A : Type) (p : prog A) phases tape orc,
  p_amb (snd (spec_run p (p_init phases tape))) = false ->
  fst (op_run p (o_init phases orc tape)) = fst (spec_run p (p_init phases tape)) /\
  same_end (snd (op_run p (o_init phases orc tape))) (snd (spec_run p (p_init phases tape)))
           (fst (op_run p (o_init phases orc tape))).
Proof. exact @run_indep. Qed.
Print Assumptions c07_segmentation_independent.

(* in particular two segmentations of the same exchange cannot be told apart, in either role,
   for any Diffie-Hellman function, options, torrent list and identities *)
Theorem c07_two_segmentations : forall mexp (client crypto : bool) o infohash myid hashes phases tape orc1 orc2,
  let p := if client then client_prog mexp crypto o infohash myid else server_prog mexp o hashes in
  p_amb (snd (spec_run p (p_init phases tape))) = false ->
  fst (op_run p (o_init phases orc1 tape)) = fst (op_run p (o_init phases orc2 tape)) /\
  (forall r, fst (op_run p (o_init phases orc1 tape)) = OK r ->
     o_delivered (snd (op_run p (o_init phases orc1 tape))) = o_delivered (snd (op_run p (o_init phases orc2 tape))) /\
     o_wr (snd (op_run p (o_init phases orc1 tape))) = o_wr (snd (op_run p (o_init phases orc2 tape)))).
Proof. exact two_segmentations. Qed.
Print Assumptions c07_two_segmentations.

(* The plain handshake: if the client's stream is its handshake followed by any payload and the
   server's stream is the server's handshake followed by any payload, both ends succeed, report
   the same info-hash and each other's peer id, the capability bits each end sent, no cipher, and
   the message layer of each end receives exactly the other end's payload, once and in order. *)
Theorem c07_plain_agreement : forall mexp co so ih cid sid others payload_c payload_s tape_c tape_s,
  len ih = 20 -> len cid = 20 -> len sid = 20 ->
  forceCH co = false -> forceE co = false -> forceCH so = false -> forceE so = false ->
  find_hash ih others = None ->
  let hashes := others ++ [(ih, sid)] in
  let c := spec_run (client_prog mexp false co ih cid) (p_init [[]; bt_handshake ih sid ++ payload_s] tape_c) in
  let s := spec_run (server_prog mexp so hashes) (p_init [bt_handshake ih cid ++ payload_c] tape_s) in
  exists rc rs, fst c = OK rc /\ fst s = OK rs /\
    h_hash rc = ih /\ h_hash rs = ih /\ h_id rc = sid /\ h_id rs = cid /\
    h_enc rc = None /\ h_enc rs = None /\
    (h_dht rc && h_fast rc && h_ext rc && h_dht rs && h_fast rs && h_ext rs = true) /\
    concat (rev (p_wr (snd c))) = bt_handshake ih cid /\ concat (rev (p_wr (snd s))) = bt_handshake ih sid /\
    p_delivered (snd c) = payload_s /\ p_delivered (snd s) = payload_c /\
    p_amb (snd c) = false /\ p_amb (snd s) = false.
Proof. exact plain_agreement. Qed.
Print Assumptions c07_plain_agreement.

(* The two ends of the MSE key exchange agree on the shared secret S, for all secret exponents:
   the square-and-multiply exponentiation of Base/Crypto.v (the one the checker runs against
   math/big's results on every run) computes b^e mod m, hence (2^Xb)^Xa = (2^Xa)^Xb mod P. *)
Theorem c07_modexp_spec : forall b e m, m <> 0 -> modexp b e m = b ^ e mod m.
Proof. exact modexp_spec. Qed.
Print Assumptions c07_modexp_spec.

Theorem c07_secret_agrees : forall xa xb,
  let mexp b e := modexp b e P768 in
  mexp (mexp 2 xb) xa = mexp (mexp 2 xa) xb.
Proof. exact mse_secret_agrees. Qed.
Print Assumptions c07_secret_agrees.
