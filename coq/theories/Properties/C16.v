(* Properties/C16.v — Upload and choking discipline. *)
From Storrent Require Import Base.Bytes Base.Bencode Model.Wire Model.PeerCore Proof.PeerCore Proof.Sent.
Open Scope N_scope.

(* In every state reachable from a fresh peer by ANY history of remote messages,
   torrent commands, ticks, upload ticks, congestion levels and writer failures, under
   ANY values of the timing/rate oracles:
   - no upload request is pending for a peer we are choking (requests received before a
     choke, or choked away, can never be served later);
   - this peer's contribution to the global count of unchoked peers equals its own
     "am unchoking" flag (so the global counter is the number of peers being unchoked
     and can never go negative);
   - at most 250 upload requests are queued, each for at most 128 KiB. *)
Theorem c16_invariant : forall g fast ext my h,
  let s := run (init_state g fast ext my) h in
  (s_am_unchoking s = false -> s_requested s = []) /\
  s_counter s = (if s_am_unchoking s then 1 else 0)%Z /\
  (length (s_requested s) <= 250)%nat /\
  Forall (fun r => u_length r <= max_request_length) (s_requested s).
Proof. exact invariant16_all. Qed.
Print Assumptions c16_invariant.

(* A Piece message written by the upload tick answers the oldest pending request of a
   peer we are unchoking, at that request's index and offset, and its payload is exactly
   what Pieces.ReadAt returned for it (verified data, by C01). *)
Theorem c16_piece_only_if : forall s ballast allow data k i b d,
  In (Piece i b d) (a_msgs (fst (step s ballast (OpUpload allow data) k))) ->
  s_am_unchoking s = true /\
  exists r rest, s_requested s = r :: rest /\ u_index r = i /\ u_begin r = b /\ data = Some d.
Proof. exact step_upload_piece. Qed.
Print Assumptions c16_piece_only_if.

(* one step preserves the invariant from any state satisfying it (not only reachable ones) *)
Theorem c16_step : forall s ballast o k, inv16 s -> inv16 (a_st (fst (step s ballast o k))).
Proof. exact step_inv16. Qed.
Print Assumptions c16_step.

(* ... and no other handler ever writes a Piece: whatever the remote peer, the scheduler or the
   timers make the peer core do, from ANY state, a Piece on the wire comes from the upload tick
   (to which c16_piece_only_if applies). *)
Theorem c16_piece_only_from_upload : forall s ballast o k i b d,
  In (Piece i b d) (a_msgs (fst (step s ballast o k))) -> exists allow data, o = OpUpload allow data.
Proof. exact piece_only_from_upload. Qed.
Print Assumptions c16_piece_only_from_upload.
