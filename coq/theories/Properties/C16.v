(* Properties/C16.v — Upload and choking discipline. *)
From Storrent Require Import Base.Bytes Base.Bencode Model.Wire Model.PeerCore Proof.PeerCore Proof.Sent Proof.ReqOutcome.
Open Scope N_scope.

(* In every state reachable from a fresh peer by ANY history of remote messages,
   torrent commands, ticks, upload ticks, congestion levels and writer failures, under
   ANY values of the timing/rate oracles:
   - no upload request is pending for a peer we are choking (requests received before a
     choke, or choked away, can never be served later);
   - this peer's contribution to the global count of unchoked peers equals its own
     "am unchoking" flag (so the global counter is the number of peers being unchoked
     and can never go negative);
   - at most 250 upload requests are queued, each for at most 128 KiB. *)
Theorem c16_invariant : forall g fast ext my h,
  let s := run (init_state g fast ext my) h in
  (s_am_unchoking s = false -> s_requested s = []) /\
  s_counter s = (if s_am_unchoking s then 1 else 0)%Z /\
  (length (s_requested s) <= 250)%nat /\
  Forall (fun r => u_length r <= max_request_length) (s_requested s).
Proof. exact invariant16_all. Qed.
Print Assumptions c16_invariant.

(* A Piece message written by the upload tick answers the oldest pending request of a
   peer we are unchoking, at that request's index and offset, and its payload is exactly
   what Pieces.ReadAt returned for it (verified data, by C01). *)
Theorem c16_piece_only_if : forall s ballast allow data k i b d,
  In (Piece i b d) (a_msgs (fst (step s ballast (OpUpload allow data) k))) ->
  s_am_unchoking s = true /\
  exists r rest, s_requested s = r :: rest /\ u_index r = i /\ u_begin r = b /\ data = Some d.
Proof. exact step_upload_piece. Qed.
Print Assumptions c16_piece_only_if.

(* one step preserves the invariant from any state satisfying it (not only reachable ones) *)
Theorem c16_step : forall s ballast o k, inv16 s -> inv16 (a_st (fst (step s ballast o k))).
Proof. exact step_inv16. Qed.
Print Assumptions c16_step.

(* ... and no other handler ever writes a Piece: whatever the remote peer, the scheduler or the
   timers make the peer core do, from ANY state, a Piece on the wire comes from the upload tick
   (to which c16_piece_only_if applies). *)
Theorem c16_piece_only_from_upload : forall s ballast o k i b d,
  In (Piece i b d) (a_msgs (fst (step s ballast o k))) -> exists allow data, o = OpUpload allow data.
Proof. exact piece_only_from_upload. Qed.
Print Assumptions c16_piece_only_from_upload.

(* The fate of a Request from the remote peer, from ANY state: either it is refused — the queue of
   pending uploads is left as it was and at most a RejectRequest with the request's own fields is
   written, and only to a peer with the fast extension — or (we are unchoking the peer, the block
   is at most 128 KiB) it is appended to the queue, after the oldest pending request has been given
   up, and rejected likewise, when 250 were pending.  Nothing else is written: never a Piece. *)
Theorem c16_request_outcome : forall s ballast i b l ad k,
  let r := step s ballast (OpMsg (Request i b l) ad) k in
  let a := fst r in
  let req := {| u_index := i; u_begin := b; u_length := l |} in
  (s_requested (a_st a) = s_requested s /\
   (a_msgs a = [] \/ (s_can_fast s = true /\ a_msgs a = [RejectRequest i b l]))) \/
  (s_am_unchoking s = true /\ l <= max_request_length /\
   ((s_requested (a_st a) = s_requested s ++ [req] /\ a_msgs a = []) \/
    (exists h t, s_requested s = h :: t /\ upload_queue_max <= llen (s_requested s) /\
       (s_requested (a_st a) = t ++ [req] \/ (snd r = VDisconnect /\ s_requested (a_st a) = t)) /\
       (a_msgs a = [] \/ (s_can_fast s = true /\ a_msgs a = [RejectRequest (u_index h) (u_begin h) (u_length h)]))))).
Proof. exact request_outcome. Qed.
Print Assumptions c16_request_outcome.
