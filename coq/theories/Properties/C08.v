(* Properties/C08.v — Encryption policy is honoured and the encrypted stream is transparent. *)
From Storrent Require Import Base.Bytes Base.Bencode Base.Crypto Model.Wire Model.Hs Model.Mse Model.CryptoConn
  Proof.Crypto Proof.Hs Proof.Mse Proof.CryptoConn.
Open Scope N_scope.

(* All 2 x 64 x 64 cells: for both handshake kinds and every pair of option sets, the mode in
   which storrent connects to storrent ([attempt]: established only when both ends believe so)
   is one that both policies permit - plaintext only when neither end forces encryption, RC4
   only when both allow it - and when both ends believe the connection established they
   believe it in the same mode. *)
Theorem c08_policy_table : forall crypto co so,
  permits co (attempt crypto co so) = true /\ permits so (attempt crypto co so) = true /\
  (client_view crypto co so <> MFail -> server_view crypto co so <> MFail ->
   client_view crypto co so = server_view crypto co so).
Proof. exact policy_cell. Qed.
Print Assumptions c08_policy_table.

(* Against any peer whatever: every crypto_provide value (all 2^32 of them and beyond), any byte
   stream, any segmentation, any random tape, any Diffie-Hellman function.  If the server-side
   handshake succeeds, the mode of the connection it returns is permitted by its options, and
   the torrent it reports is one it serves. *)
Theorem c08_server_any_peer : forall mexp o hashes s r,
  fst (op_run (server_prog mexp o hashes) s) = OK r ->
  permits o (mode_of r) = true /\ exists id, In (h_hash r, id) hashes.
Proof. exact server_any_peer. Qed.
Print Assumptions c08_server_any_peer.

(* The same for the client against any server and any crypto_select value, for both handshake
   kinds: in particular a selection that was not offered is refused. *)
Theorem c08_client_any_peer : forall mexp crypto o infohash myid s r,
  fst (op_run (client_prog mexp crypto o infohash myid) s) = OK r ->
  permits o (mode_of r) = true /\ h_hash r = infohash.
Proof. exact client_any_peer. Qed.
Print Assumptions c08_client_any_peer.

Theorem c08_select_sound : forall provide o,
  match server_select provide o with
  | 0 => True
  | 1 => forceE o = false /\ N.testbit provide 0 = true
  | 2 => allowE o = true /\ N.testbit provide 1 = true
  | _ => False
  end.
Proof. exact server_select_sound. Qed.
Print Assumptions c08_select_sound.

Theorem c08_accept_sound : forall sel o m,
  client_accept sel o = Some m ->
  (m = true -> sel = 2 /\ allowE o = true) /\ (m = false -> sel = 1 /\ forceE o = false) /\
  N.land sel (client_provide o) <> 0.
Proof. exact client_accept_sound. Qed.
Print Assumptions c08_accept_sound.

(* The encrypted connection, for any key, any sequence of Write calls of any sizes (above and
   below the 32 KiB staging buffer) and any behaviour of the underlying connection (any call may
   accept fewer bytes than offered, with or without an error): the bytes on the wire number
   exactly what the calls reported; decrypted by the receiver they are exactly that prefix of
   what was written, in order; if no call failed it is everything.  (The key stream never runs
   ahead of the wire: once a call fails, nothing more is sent.) *)
Theorem c08_conn_transparent : forall key ops,
  let s := fst (run_writes (conn_init key) ops) in
  let reported := snd (run_writes (conn_init key) ops) in
  reported = len (c_wire s) /\
  reported <= len (all_data ops) /\
  snd (conn_read (rc4_init key) (c_wire s)) = ftake reported (all_data ops) /\
  (c_err s = false -> reported = len (all_data ops)).
Proof. exact conn_transparent. Qed.
Print Assumptions c08_conn_transparent.

(* the receiver may read in pieces of any size *)
Theorem c08_read_pieces : forall dec a b,
  snd (conn_read dec (a ++ b)) = snd (conn_read dec a) ++ snd (conn_read (fst (conn_read dec a)) b).
Proof. exact conn_read_pieces. Qed.
Print Assumptions c08_read_pieces.

(* encryption followed by decryption under the same key stream is the identity *)
Theorem c08_roundtrip : forall st a, snd (rc4_xor st (snd (rc4_xor st a))) = a.
Proof. exact rc4_xor_invol. Qed.
Print Assumptions c08_roundtrip.
