(* Properties/C04.v — Wire decoding is total, exactly framed and memory-bounded.
   Only statements; every proof is `exact <lemma>` from Proof/. *)
From Storrent Require Import Base.Bytes Base.Bencode Model.Wire Model.DepthLimiter Proof.Bencode Proof.Wire Proof.DepthLimiter.
Open Scope N_scope.

(* never "no message and no error" *)
Theorem c04_no_nilnil : forall bs n, decode bs <> DNilNil n.
Proof. exact decode_no_nilnil. Qed.
Print Assumptions c04_no_nilnil.

(* a decoded message consumed exactly the 4-byte prefix plus the announced length,
   all of it present in the stream, and the frame is within the 1 MiB cap *)
Theorem c04_exact_frame : forall bs m n a,
  decode bs = DMsg m n a ->
  exists l, announced bs = Some l /\ n = 4 + l /\ n <= len bs /\ l <= max_frame.
Proof. exact decode_exact. Qed.
Print Assumptions c04_exact_frame.

(* the result does not depend on anything after the frame *)
Theorem c04_never_reads_past_frame : forall bs tail m n a,
  decode bs = DMsg m n a -> decode (bs ++ tail) = DMsg m n a.
Proof. exact decode_app. Qed.
Print Assumptions c04_never_reads_past_frame.

(* an error never consumes beyond the announced frame *)
Theorem c04_errors_do_not_overread : forall bs e n a,
  decode bs = DErr e n a ->
  n <= len bs /\ forall l, announced bs = Some l -> n <= 4 + l.
Proof. exact decode_err_bound. Qed.
Print Assumptions c04_errors_do_not_overread.

(* frames above 1 MiB are refused after the prefix, with nothing allocated *)
Theorem c04_cap : forall bs l,
  announced bs = Some l -> max_frame < l -> decode bs = DErr ETooLong 4 0.
Proof. exact decode_toolong. Qed.
Print Assumptions c04_cap.

(* allocation: at most three times the announced length for every message ... *)
Theorem c04_alloc_bounded_msg : forall bs m n a,
  decode bs = DMsg m n a -> forall l, announced bs = Some l -> a <= 3 * l.
Proof. exact decode_alloc_msg. Qed.
Print Assumptions c04_alloc_bounded_msg.

(* ... and for every error not raised inside the third-party bencode decoder
   (PARTIAL: the full statement, without the side condition, is refuted below) *)
Theorem c04_alloc_bounded_partial : forall bs e n a,
  decode bs = DErr e n a -> e <> EBencode ->
  forall l, announced bs = Some l -> a <= 3 * l.
Proof. exact decode_alloc_err. Qed.
Print Assumptions c04_alloc_bounded_partial.

(* REFUTED (known finding C04-bencode-alloc): a 29-byte stream whose extended
   handshake declares a 2 GiB string makes the decoder allocate 2 GiB *)
Theorem c04_alloc_bounded_refuted :
  exists e n a, announced witness_declared_long = Some 25 /\
                decode witness_declared_long = DErr e n a /\ 1000 * 25 < a.
Proof. exact alloc_refuted_witness. Qed.
Print Assumptions c04_alloc_bounded_refuted.

(* the model's bencode parser never reports fuel exhaustion: its results are the
   library's, not an artefact of the fuel *)
Theorem c04_bencode_fuel_sufficient : forall bs k, bdecode bs <> BErr BFuel k.
Proof. exact bdecode_never_out_of_fuel. Qed.
Print Assumptions c04_bencode_fuel_sufficient.

(* Nesting is bounded (fix df6a942; before it a megabyte of nested lists in an extension message
   overflowed the recursive decoder's stack and killed the process): the bencoded payload of an
   extension message is accepted only if its value nests at most 64 levels deep. *)
Theorem c04_depth_limited : forall bs v r k,
  bdecode_lim bs = BOk v r k -> bdecode bs = BOk v r k /\ vdepth v <= max_bencode_depth.
Proof. exact bdecode_lim_ok. Qed.
Print Assumptions c04_depth_limited.

(* The reader that enforces the bound (protocol.LimitBencodeDepth, Model/DepthLimiter.v: a byte-by-byte
   state machine, compared with the Go code on every run) against the decoder it protects.
   Safety, for EVERY input — well-formed, malformed, truncated: if the limiter lets the input
   through, the decoder behaves exactly as a decoder that refuses to open a container more than 64
   levels down; so the decoder's recursion is bounded on whatever prefix it is allowed to read.
   (An earlier version of the limiter stopped following the structure at a string length with a
   sign, which strconv.ParseInt accepts: the proof of this theorem failed there, and so did the
   real code: 'd+1:a' followed by a megabyte of 'l' still crashed the process; fix cebaacc.) *)
Theorem c04_limiter_safe : forall f bs,
  lim_passes bs = true -> bparse_b f max_bencode_depth bs = bparse f bs.
Proof. exact limiter_safe. Qed.
Print Assumptions c04_limiter_safe.

(* Exactness: a value the decoder accepts is refused by the limiter exactly when it nests deeper than
   64 levels — nothing shallower is ever refused — and what follows an accepted value passes. *)
Theorem c04_limiter_exact : forall bs v rest k,
  bdecode bs = BOk v rest k -> lim_passes bs = negb (max_bencode_depth <? vdepth v).
Proof. exact limiter_exact. Qed.
Print Assumptions c04_limiter_exact.

(* hence reading through the limiter and decoding is [bdecode_lim], which the models use *)
Theorem c04_limited_decode : forall bs v rest k, bdecode bs = BOk v rest k ->
  bdecode_lim bs = if lim_passes bs then BOk v rest k else BErr BSyntax k.
Proof. exact limited_decode. Qed.
Print Assumptions c04_limited_decode.
