#!/usr/bin/env python3
# usage: dbgmon.py <workdir> <case id> <mon_step name> — show the first step failing a monitor
import sys, re, subprocess, os, glob
wd, cid, mon = sys.argv[1], int(sys.argv[2]), sys.argv[3]
for f in sorted(glob.glob(os.path.join(wd, "shard*.v"))):
    s = open(f).read()
    m = re.search(r"\{\| p_id := %d;.*?\] \|\}(?=;\n\{\| p_id|\n\]\.)" % cid, s, flags=re.S)
    if m:
        body = m.group(0)
        out = ("From Storrent Require Import Base.Bytes Base.Bencode Model.Wire Model.PeerCore Check.WireCheck Check.PeerCheck.\nOpen Scope N_scope.\nDefinition c : pcase := %s.\n"
               "Eval vm_compute in match find (fun x => negb (%s x)) (snd (run_case c)) with Some (s, r, o) => Some (st_ballast o, st_op o, st_msgs o, s_geo s, snap_of s, snap_of (a_st (fst r))) | None => None end.\n") % (body, mon)
        open("/tmp/dbgmon.v", "w").write(out)
        r = subprocess.run(["coqc", "-Q", "/verif/coq/theories", "Storrent", "/tmp/dbgmon.v"], stdout=subprocess.PIPE, stderr=subprocess.STDOUT, text=True)
        print(r.stdout[:5000])
        break
