# Per-property configuration of ./check
COMMON_TRUST = [
    "correspondence harness (Go, /verif/harness) and its generators; cases evaluated in Coq by vm_compute",
    "genconsts translator (named constants of /repo -> Gen/Consts.v)",
]

PROPS = {
    "C01": dict(
        level_text="Model/PieceStore.v is the piece store as a transition system whose actions are the critical sections of tor/piece/piece.go (AddData, Finalise split into begin/end with the piece busy in between, ReadAt, del, del(force), the deleted latch); every interleaving of any number of goroutines is a sequence of actions. Theorems over every sequence: a complete piece holds all its blocks and its digest equals the metainfo's, a busy piece holds all its blocks (c01_invariant); ReadAt changes nothing and returns content only from a complete piece, at the block's place (c01_read_verified); nobody can change or free a buffer while it is hashed (c01_busy_is_kept). Tie: deterministic operation sequences on a real piece.Pieces (good/corrupt/duplicate/out-of-order/over-long blocks, finalise, reads at any offset, aged eviction, deletion, data after deletion; pieces of 16 KiB-256 KiB incl. mmap'd ones, short last piece and block) with results and the whole store state (buffers held, pieces verified, block bitmaps, Count, Bytes, alloc.Bytes) compared after every operation; concurrent stress runs (4-11 goroutines, pieces up to 4 MiB that start full so that hashing is always going on, corrupt blocks, eviction, deletion in the middle, a directed deletion-while-hashing race) judged by monitors: every byte read equals the torrent's true content, no panic.",
        level_note="Atomicity of the critical sections (sync.RWMutex) and the Go memory model are assumed; the SHA-1 is an abstract function H in the theorems and the real one in the harness. The upload path (Piece messages to a remote peer) goes through Pieces.ReadAt; its short-read rejection is part of the peer-core model (C16).",
        harness="swarm", args=["-prop", "C01"], check_module="PieceStoreCheck",
        n_quick=300, n_thorough=4000,
        trusted=COMMON_TRUST + ["verif hooks tor/piece/export_verif.go (VerifHolds, VerifSetAge, VerifBusy, VerifData)", "Go's sync.RWMutex gives the atomicity the model's actions assume"],
        assumptions=["critical sections are atomic"],
    ),
    "C03": dict(
        level_text="On the transition system of Model/PieceStore.v (see C01), over every interleaving: Pieces.count and the bytes accounted through alloc.Alloc/Free are exactly those of the pieces holding a buffer (c03_accounting: allocated once, freed once); eviction skips and deletion waits for a piece being hashed (c03_busy_is_kept); once deleted is latched a released piece stays released whatever happens (c03_deleted_stays_empty); an eviction reports a piece as complete exactly when it was readable (c03_evict_reports). Tie: the same sequences and stress runs as C01 with monitors on the real store: alloc.Bytes() equals the sum of the lengths of the buffers held after every operation and at the end of every stress run, Count matches, an eviction pass ends at or below its target unless nothing is left, evicts least recently accessed first, reports exactly the verified pieces it drops; after Del nothing is held, nothing is allocated, AddData fails with ErrDeleted; the global tor.Expire never crashes (also with a zero target or no torrents) and brings memory down to the low-water mark when it decides to evict.",
        level_note="tor.Expire's fair-share arithmetic is checked by the harness on real torrents, not modelled; LRU order is checked only among pieces whose age the harness set. mmap/munmap are the operating system's.",
        harness="swarm", args=["-prop", "C03"], check_module="PieceStoreCheck",
        n_quick=300, n_thorough=4000,
        trusted=COMMON_TRUST + ["verif hooks tor/piece/export_verif.go", "alloc.Bytes() is read as a process-wide counter between cases (cases run one at a time)"],
        assumptions=["critical sections are atomic"],
    ),
    "C02": dict(
        level_text="Model/Reader.v models tor.Reader's Seek and Read (through Pieces.ReadAt, one piece per call). Theorems for every geometry, range, position and buffer size: the bytes a Read returns are exactly bytes [offset+pos, offset+pos+cnt) of the torrent, inside the reader's range and inside one piece, cnt <= buffer, position advances by cnt, progress whenever possible, EOF exactly at the end of the range (c02_read_exact); Seek as a file's (c02_seek); any sequence of reads returns consecutive ranges (c02_reads_are_consecutive). Tie: random Seek/Read/Close sequences on a real tor.Reader over a fully available real torrent (all offsets, lengths, buffer sizes crossing piece boundaries, short last piece): result, error class and position compared with the model, bytes compared with the torrent's content. Liveness on the real event handler with real peers and an honest, unchoking scripted seed: a read blocks until the data arrives, returns correct data again after its pieces were evicted between reads (twice), fails with the context's error when cancelled and with ErrTorrentDead when the torrent is deleted, within a 6 s watchdog; afterwards neither the reader nor Torrent.requested holds any request (also for a reader in piece 0).",
        level_note="Liveness is observed on a finite set of scenarios, not proved; HTTP Range handling is net/http's ServeContent over this Reader (exercised by C19/C20's harness only for whole files) and concurrent FUSE reads are serialised by fuse.go's semaphore, neither is modelled here. A range that overruns the torrent is out of scope (Reader reports an error and EOF alternately).",
        harness="swarm", args=["-prop", "C02"], check_module="ReaderCheck",
        n_quick=160, n_thorough=2000,
        trusted=COMMON_TRUST + ["verif hooks tor/export_verif.go (Reader.VerifRequested, VerifRequested, VerifHandleEvent ...)", "the harness's background driver (event pump, request ticker, honest seed answering every request)"],
        assumptions=["watchdog of 6 s per read is generous on this machine"],
    ),
    "C04": dict(
        level_text="Theorems over all byte strings (no length bound) about a Gallina model of protocol.Read: never (nil,nil), exact framing, independence from bytes after the frame, errors never over-read, 1 MiB cap, allocation <= 3x frame for messages and for errors raised outside the bencode library; the library's allocate-before-read is refuted with a witness (known finding). The model is tied to the code on every run by decoding ~2000 generated frames (every id x length 0..20 x exact/truncated/over-long, big frames, structured and hostile bencode, random cuts) with protocol.Read and with the model inside Coq and comparing message, bytes consumed, error class and allocation.",
        level_note="Trusted: Coq kernel + vm_compute; Go harness and generators; zeebo/bencode specified not verified; absence of panics observed not proved; allocation tied through TotalAlloc deltas with 8x+64KiB slack.",
        harness="wire", args=["-prop", "C04"], check_module="WireCheck",
        n_quick=600, n_thorough=12000,
        trusted=COMMON_TRUST + [
            "zeebo/bencode v1.0.0 is specified (Base/Bencode.v), not verified; its agreement with the model is checked by the correspondence on every run",
            "bufio/io/encoding-binary semantics (ReadFull, Discard, LimitReader) as modelled by take/read32",
        ],
        assumptions=[
            "allocation is tied to the model's cost function through runtime.MemStats.TotalAlloc deltas with slack 8x+64KiB (coarse)",
            "absence of panics in protocol.Read is observed by the harness, not proved: the model has no panic path because reader.go performs no indexing or slicing",
        ],
    ),
    "C06": dict(
        level_text="encode_spec is an independent encoder written from the BEPs. Theorems: for every core message, bitfield, piece and lt_donthave with every in-range field value, decode(encode_spec m ++ rest) = m consuming exactly its bytes (c06_roundtrip_partial); any concatenation of round-tripping messages decodes as one stream to the same sequence, independent of cuts (c06_stream). On every run protocol.Write's bytes are compared byte for byte with encode_spec and read back through protocol.Read under 4 cut patterns for all 20 emit-able message types incl. the bencoded extension messages and foreign sub-ids.",
        level_note="Round-trip of the three bencoded extension messages is established by the correspondence only (not yet a theorem). Trusted: Coq kernel + vm_compute, harness, zeebo/bencode encoder specified not verified.",
        harness="wire", args=["-prop", "C06"], check_module="WireSpecCheck",
        n_quick=250, n_thorough=6000,
        trusted=COMMON_TRUST + [
            "Model/WireSpec.v (encode_spec) is the independent codec: written from BEP 3/5/6/9/10/11, compared byte for byte with protocol.Write on every run",
            "zeebo/bencode encoder/decoder specified, not verified",
        ],
        assumptions=[
            "round-trip theorem is proved for the core messages, bitfield, piece and lt_donthave for all field values; for the three bencoded extension messages it is established by the correspondence (vm_compute on generated messages), see c06_roundtrip_partial",
        ],
    ),
    "C13": dict(
        level_text="Theorems over all byte strings about a Gallina model of ReadTorrent/MetadataComplete (incl. the bencode library's typed decoding and RawMessage capture): never panics (division by zero and negative make sizes are explicit panic results shown unreachable), every accepted torrent satisfies the decidable geometry predicate (positive 16 KiB-multiple piece length, contiguous non-negative files summing to the total, ceil(total/16KiB) in-flight slots, piece and hash tables of ceil(total/piece length) entries). Tie: ~1300 generated metainfo files (grammar-based, boundary numeric fields, hostile variants, mutations) run through tor.ReadTorrent and the model; raw info slice, geometry, trackers, web seeds compared; sha1(Info)=Hash and WriteTorrent->ReadTorrent identity checked on each accepted input.",
        level_note="Info-hash and write/read identity clauses are checked by correspondence/harness, not yet theorems; ReadMagnet not modelled; net/url specified on generated shapes only.",
        harness="torfile", args=["-prop", "C13"], check_module="TorfileCheck",
        n_quick=1200, n_thorough=30000,
        trusted=COMMON_TRUST + [
            "zeebo/bencode decoder specified (Base/Bencode.v), incl. RawMessage capture; net/url specified only on the URL shapes the generator produces (control characters, leading colon, empty)",
            "crypto/sha1: the harness itself checks sha1(t.Info) = t.Hash; the model returns the raw info slice",
        ],
        assumptions=[
            "info-hash clause: the model's raw info slice is compared with Torrent.Info and checked to be a contiguous slice of the input; WriteTorrent/ReadTorrent identity (hash, tracker tiers, web seeds) is checked by the harness on every accepted input, not yet a theorem",
            "ReadMagnet is not modelled yet",
        ],
    ),
    "C05": dict(
        level_text="Model/PeerCore.v is an executable model of peer.handleMessage/handleEvent/maybeRequest/scheduleUpload/unchoke/expireRequests/sendPex with the request queue and bitmaps. Theorem c05_total: from ANY peer state, any message/command/tick under any oracle values ends in continue or disconnect, never a panic (the 'Requests is broken!' sites are unreachable); termination by structural recursion. Allocation proportionality and the exit path are checked on the implementation by the monitor (TotalAlloc per handled message) on every run. Tie: 300 (quick) random histories of 5-60 steps on a real peer.Peer driven through verif entry points; after every step verdict, messages, torrent events and a full state snapshot are compared with the model, the nondeterministic choices (pipelining depth, request expiry, AddData/ReadAt results, rate limiter) being found by search and checked to be allowed by the model.",
        level_note="Partial: c05_alloc_proportional is a monitor on the implementation (24x message size + 64 KiB; 838,861 B for a Have before metadata), not yet a theorem about the model's cost function; peer.Run's start-up and exit sequence (c05_exit_always_announced) is exercised by C17's harness, not modelled here. Trusted: Coq kernel+vm_compute, harness, verif hooks in peer/ (export_verif.go).",
        harness="peercore", args=["-prop", "C05"], check_module="PeerCheck", focus=True,
        n_quick=300, n_thorough=6000,
        trusted=COMMON_TRUST + ["verif entry points peer/export_verif.go, peer/requests/export_verif.go (add-only)",
                                "time, rate estimators and the piece store are oracles of the model (values found by search, checked to be admissible)"],
        assumptions=["scheduler commands (PeerRequest/PeerHave) name existing blocks/pieces, as the torrent loop guarantees"],
    ),
    "C09": dict(
        level_text="c09_peer_conserves: for every step of the peer core (Model/PeerCore.v, the model tied to peer.go by checks C05/C11/C16 on every run: any message, command, expiry or upload tick, any congestion and oracle values) and every block, held-after + TorData/TorDrop emitted = held-before + occurrences in a PeerRequest command; c09_exit_releases: the exit path releases everything; c09_handler_releases_one: the torrent's TorData/TorDrop handler releases exactly the named block, incl. the final short one. c09_invariant / c09_conserved_at_quiescence / c09_zero_when_alone: in the system of Model/Sched.v (any number of peers joining, being commanded, handling commands/messages/ticks in any order, exiting with commands still queued, the torrent handling events in order, arbitrary transit delays) in-flight = held by running peers + queued commands + releases in transit in every reachable state, hence equals the outstanding requests at quiescence and is zero when nobody is connected. Tie: 120 (quick) scenarios on the real event handler (handleEvent, periodicRequest, piece store) with real peer.Run goroutines over in-memory connections to scripted remote peers (join with bitfield/have-all/none, fast, small queue depth, unchoke/choke, have, good/corrupt/duplicate/unrequested blocks, reject, departure racing with the scheduler): every handled event's effect on inFlight/available is compared with the model, and at every quiescent point inFlight is audited against the requests actually held by the connected peers and available against their bitmaps; at the end everybody leaves and all counters must be zero.",
        level_note="availability conservation is judged by the audits (no theorem yet); web-seed fetches are covered by C14's writer accounting, not by this harness; request expiry is covered by the peer-core theorem and C11's harness, not exercised here (it needs tens of seconds of real time). The system model has FIFO delivery per queue as the Go channels do.",
        harness="swarm", args=["-prop", "C09"], check_module="SchedCheck",
        n_quick=120, n_thorough=1500,
        trusted=COMMON_TRUST + ["verif hooks tor/export_verif.go (VerifInit, VerifHandleEvent, VerifPeriodicRequest, VerifPeers, VerifInFlight, VerifAvailable), peer/export_verif.go (VerifState)", "the harness's quiescence detection (activity counters stable; a failed audit is repeated after a long pause before it counts)", "the scripted remote peers and the in-memory pipe"],
        assumptions=["a state read of an idle peer goroutine after a synchronous GetStatus round trip is consistent"],
    ),
    "C10": dict(
        level_text="Model/Requested.v models tor/requests.go (Add, Del, del, Done, DelIdle, DelIdlePiece) with numbered completion channels. Theorems over every operation sequence: no channel is closed twice, closed channels are distinct, a channel attached to an entry is open and attached nowhere else (c10_channels_closed_once); Done closes the waiting channel of its piece and leaves none behind (c10_done_wakes, c10_done_clears); Add records the priority on that piece only; Del withdraws exactly one occurrence (a permutation statement) from that piece only and nothing when nobody holds it; Done/DelIdle never take a consumer's priority away; a wanted piece stays requested. Tie: generated operation sequences on a real tor.Requested (return values, entries and the closed state of every channel ever handed out compared with the model after every operation) and scenarios on the real event handler with real peers (consumers asking for completion channels at several priorities, withdrawing, pieces delivered good/corrupt, evicted, requests that raced with completion): at each quiescent point a waiter is woken iff its piece was verified after it started waiting or its wait was abandoned, nobody sleeps on a verified piece, and Torrent.requested carries exactly the priorities the consumers hold.",
        level_note="The interleaving of a reader goroutine with the event loop (Torrent.Request's completeness test before queuing) is represented by issuing the TorRequest for a complete piece directly; tor.Reader's own bookkeeping (which pieces it withdraws) is part of C02. The wake-up theorem is about the data structure; its use by requestPiece/TorHave is tied by the scenarios only.",
        harness="swarm", args=["-prop", "C10"], check_module="RequestedCheck",
        n_quick=120, n_thorough=1500,
        trusted=COMMON_TRUST + ["verif hooks tor/export_verif.go (VerifNewRequested, VerifSnapshot, VerifRequested, VerifHandleEvent ...)", "the harness's quiescence detection and scripted remote peers"],
        assumptions=[],
    ),
    "C11": dict(
        level_text="Theorems about the peer model: every Request added by maybeRequest, for any pipelining decision, comes from a scheduler-queued block, for a piece the peer advertised, sent while unchoked or allowed-fast (c11_requests_send_time); for every block of a well-formed geometry the computed index/offset/length are in range, aligned and exactly min(16 KiB, rest) (c11_request_fields, incl. the >4 GiB overflow fixed in fromChunk); outstanding requests never exceed max(2, reqq) (c11_pipeline_depth); PEX as a transition system with the remote's view as ghost state: never announce twice, never drop an unannounced address, every departure queued and drained in ceil(n/50) ticks (c11_pex_*), tied to sendPex by c11_pex_refines. Monitors on the implementation per step: request/cancel/have conformance against the peer's advertised state, no duplicates, queue depth, PEX deltas. Tie as for C05 (histories weighted towards requests, cancels, PEX).",
        level_note="Partial: the Cancel clause and the no-duplicate-outstanding clause are monitors on the implementation (not yet theorems); the initial Bitfield/HaveAll/HaveNone advertisement of peer.Run is checked by C17's real-connection harness. Trusted as C05.",
        harness="peercore", args=["-prop", "C11"], check_module="PeerCheck", focus=True,
        n_quick=300, n_thorough=6000,
        trusted=COMMON_TRUST + ["verif entry points in peer/ (add-only)", "time and rate estimators are oracles"],
        assumptions=["scheduler commands name existing blocks/pieces"],
    ),
    "C16": dict(
        level_text="Theorem c16_invariant: in every state reachable from a fresh peer by any history of messages, commands, ticks, upload ticks, congestion and writer failure, under any oracle values: no upload request is pending while we choke the peer, the peer's contribution to the global unchoke counter equals its flag, at most 250 requests of at most 128 KiB each are queued. Theorem c16_piece_only_if: a Piece is written by the upload tick only for the oldest pending request of a peer we unchoke, at its index/offset, with exactly the bytes ReadAt returned. Tie as for C05 (histories weighted towards interested/request/cancel/choke/upload-tick), plus per-step monitors of the same predicates on the implementation.",
        level_note="That no handler other than the upload tick writes a Piece is checked by the monitor, not yet a theorem; ReadAt returning verified data is C01. Trusted as C05.",
        harness="peercore", args=["-prop", "C16"], check_module="PeerCheck", focus=True,
        n_quick=300, n_thorough=6000,
        trusted=COMMON_TRUST + ["verif entry points in peer/ (add-only)", "rate limiter and Pieces.ReadAt are oracles"],
        assumptions=[],
    ),
    "C12": dict(
        level_text="Model/Metadata.v models metadataVote/Guess, resizeMetadata, requestMetadata and gotMetadata followed by MetadataComplete, with SHA-1 as a universally quantified function. Theorems for every history of votes, requests and blocks from any mix of peers: c12_authentic (usable only with a dictionary whose digest equals the info-hash and that MetadataComplete validated) and c12_total (no event panics: slice bounds and division by zero unreachable). Tie: 200 (quick) histories on a magnet-created tor.Torrent driven through the real handleEvent (TorPeerExtended, TorMetaData) and requestMetadata; buffer length, blocks present, slot count, votes, completion and the published Info compared after every step; monitor: never a panic, complete only with the authentic dictionary.",
        level_note="Liveness clause (completes after honest blocks for every index) is exercised by the harness (every history ends with an honest round) but not proved; known finding C12-forged-block-holds-index: an honest block arriving while a forged block occupies its index is ignored, so completion needs a further round after the mismatch reset. For execution SHA-1 is instantiated by the indicator of the authentic dictionary (collision-freeness of generated contents assumed). Size-vote ties are resolved by an oracle checked to be an argmax.",
        harness="metadata", args=["-prop", "C12"], check_module="MetadataCheck",
        n_quick=200, n_thorough=4000,
        trusted=COMMON_TRUST + ["verif hooks tor/export_verif.go (VerifInit, VerifHandleEvent, VerifRequestMetadata, VerifMetadataState)",
                                "gotMetadata's error is recovered from the torrent's log output"],
        assumptions=["SHA-1 of distinct generated metadata contents are distinct"],
    ),
    "C15": dict(
        level_text="Model/Tracker.v models the UDP retransmission loop and reply parsers, the HTTP reply decoder (on the shared bencode model) and the announce-timing state machine. Theorems: the retransmission loop never reaches panic for any 1-4 attempt outcomes (c15_udp_total); compact peer lists are read entry by entry in order (c15_peers_exact); an announce never leaves the tracker locked and Busy is reported only while locked (c15_not_stuck, c15_busy_only_if_locked); consecutive contacts are more than max(5 min, interval in force) apart, the interval in force being the announced one above a minute and at least 15 min otherwise (c15_spacing, c15_effective_interval, c15_interval_in_force, c15_no_contact_no_change). Tie: 600 (quick) scripted exchanges: udpRequestReply over a scripted connection, announceUDP against a loopback UDP server, announceHTTP and full HTTP.Announce histories with clock advances against a loopback HTTP server; results, peers learnt, intervals, contact counts and states compared with the model.",
        level_note="net/http, net/url, the sockets and netip.ParseAddr are not modelled (dict-format peers are generated with dotted IPv4 or clearly invalid strings only); IPv6 UDP announces are not exercised (no udp6 loopback assumed); concurrent GetState during an announce is covered by the lock theorem only. Durations wrap as int64 in the model where the code multiplies.",
        harness="tracker", args=["-prop", "C15"], check_module="TrackerCheck",
        n_quick=600, n_thorough=20000,
        trusted=COMMON_TRUST + ["verif hooks tracker/export_verif.go", "loopback UDP/HTTP servers of the harness"],
        assumptions=["the clock is advanced by ageing the tracker's timestamp; real elapsed time during a case is negligible against the 10 s margins used"],
    ),
    "C20": dict(
        level_text="Model/Namespace.v models path.Parse/Equal/Within/Compare, fileParms, the directory listing and playlist enumeration and the FUSE Lookup/ReadDirAll/Attr methods over a file table, plus the specification spec_resolve. Tie: 150 (quick) layouts (nested, shared prefixes, names needing escaping, empty and padding files; a quarter hostile with duplicates and prefix conflicts) registered as running torrents with verified content; every file path, every proper prefix and crafted absent paths resolved through fileParms, HEAD requests on the real mux, directory pages, playlists and the FUSE nodes (called without mounting); compared with the model, and judged against the specification by the monitor.",
        level_note="net/http's mux and ServeContent, url.PathEscape and bazil/fuse dispatch are not modelled; paths that net/http rewrites ('.' and '..' components) are skipped. GetByName with several torrents of the same name is not exercised.",
        harness="httpui", args=["-prop", "C20"], check_module="NamespaceCheck",
        n_quick=150, n_thorough=3000,
        trusted=COMMON_TRUST + ["verif hooks http/export_verif.go, fuse/export_verif.go"],
        assumptions=["FUSE clauses are stated for sane tables (valid components, distinct paths, no path a proper prefix of another); component validity is enforced by MetadataComplete (fix 0cad2f2)"],
    ),
    "C17": dict(
        level_text="A translator (harness/cmd/genapi, go/ast) extracts from /repo/tor/*.go on every run, for every exported operation of Torrent and Reader, the blocking channel operations in order with the alternatives of every select (Gen/TorApi.v). Model/Lifecycle.v gives them a semantics against the event loop, which takes queued events in order, answers them and may stop at any moment. Theorems: c17_no_call_hangs - for every extracted operation, with or without room in the event queue, with the loop running or already stopped, under every interleaving of the loop's steps with the call's, no reachable configuration has the loop stopped and the call blocked (proved by an exhaustive exploration whose soundness for arbitrary programs is c17_explorer_sound); c17_apis_present - the 17 operations were found. A call written without the Done alternative makes the theorem fail (bare_reply_refuted is the shape Torrent.Request had). Tie for the runtime part: scenarios on a torrent running its real main loop with real peers, a verified piece and a blocked reader: all 16 operations issued after the loop has stopped, concurrently with Kill, and queued behind the deletion in a stalled loop (also with 30-45 peers and ~500 events of backlog); each must return within 5 s; afterwards the torrent is unlisted, every peer connection closed, the reader failed, memory and goroutines back to the baseline.",
        level_note="The translator flattens control flow (if/for bodies are taken in order) and does not follow calls (Reader.Read's use of Torrent.Request appears as the two separate entries). 'Deletion is complete' is observed, not proved. The loop's handlers are assumed to answer every event they take.",
        harness="swarm", args=["-prop", "C17"], check_module="LifecycleCheck",
        n_quick=40, n_thorough=400,
        trusted=COMMON_TRUST + ["genapi translator (Go source -> Gen/TorApi.v), re-run on every check", "runtime.NumGoroutine and alloc.Bytes as process-wide observations (cases run one at a time)"],
        assumptions=["a handler that takes an event answers it"],
    ),
    "C18": dict(
        level_text="Model/Privacy.v: a torrent's switches (DHT none/passive/normal, trackers, web seeds, proxied or not) and the contacts each event produces (Torrent.announce, the SetConf handler, the slow ticker's tracker announce, the web-seed branch of periodicRequest, the start of peer.Run, tor.Server). Theorem c18_every_contact_permitted: over every sequence of configuration changes, announce requests, ticks, fetch attempts, new peers and incoming handshakes, from any initial configuration, every contact is permitted by the switches in force when it is made (DHT only when the mode is not none, a port only in normal mode without proxy; trackers only while on, zero ports when proxied; web seeds only while on; a proxied torrent reveals neither version nor port nor DHT port and accepts nobody). Tie: 32 (quick) torrents run their real main loops side by side for 44 s (two ticks of the 20 s ticker), each with its own initial switches and 2-3 changes on the way, a recording tracker.Tracker, a GetRight web seed on a local HTTP server, a DHT-and-extension-capable scripted peer, an incoming handshake through tor.Server, wanted data nobody has, explicit Announce calls; the contacts that follow AddTorrent, SetConf, Announce, the new peer and the incoming handshake are compared with the model, and every contact observed at any time (DHT hook, tracker, web seed) is judged against the configurations in force in the 1.5 s before it.",
        level_note="The 28-minute DHT refresh and multi-tier tracker selection are not exercised; the IPv6 address in the extended handshake cannot be observed here (no IPv6 route in the sandbox). A contact already under way when a switch is turned off is tolerated for 1.5 s.",
        harness="swarm", args=["-prop", "C18"], check_module="PrivacyCheck",
        n_quick=32, n_thorough=160, timeout=600,
        trusted=COMMON_TRUST + ["verif hook tor/hook_verif.go (observation point before dht.Announce; one call in tor.go, a no-op without the tag)", "injected tracker.Tracker, local HTTP web seed, scripted peer, pipe end claiming a public TCP address"],
        assumptions=["wall-clock timestamps of the harness order contacts and switch changes correctly up to the 1.5 s grace"],
    ),
    "C19": dict(
        level_text="Model/HttpUI.v specifies the Host check in front of every handler and the escaping functions applied where attacker-controlled strings enter pages and playlists. Theorems over all strings: a host that is neither localhost nor an IP literal is refused, and DNS names are never IP literals (c19_local_only, c19_dns_names_are_not_ip_literals); HTML-escaped text contains no tag/attribute delimiter (c19_html_escaped); path-escaped text contains no delimiter, whitespace or control byte (c19_url_escaped); playlist titles contain no line break (c19_playlist_lines). Tie: 24 Host headers x 15 (route, method) pairs on the real mux with a running torrent (status and state change), and 100 torrents built from hostile strings (name, path, tracker URL and error text via an injected tracker, web-seed URL, peer version) rendered on the root, directory, peers and playlist pages: raw occurrences of a hostile string are violations; html.EscapeString/url.PathEscape compared with the model on every string.",
        level_note="That every handler calls checkLocal first and that every output site applies an escaping function is established by the sweep (every route x method x host; every attacker-controlled field on every page), not by a theorem over the page renderers; net.SplitHostPort/ParseIP are specified on the generated shapes. The Host header echoed inside the registerProtocolHandler script is not covered (only IP literals/localhost reach it).",
        harness="httpui", args=["-prop", "C19"], check_module="HttpUICheck",
        n_quick=100, n_thorough=3000,
        trusted=COMMON_TRUST + ["verif hook http/export_verif.go (VerifMux)", "an injected tracker.Tracker implementation supplies tracker URL and error text"],
        assumptions=[],
    ),
    "C14": dict(
        level_text="Model/Webseed.v models fileChunks, Pieces.AddData's block arithmetic, the writer (Write, ReadFrom, Close) and GetRight.Get's response validation. Theorems: for every contiguous file table and in-range request the file chunks tile the range exactly, each inside its file (c14_filechunks_partition); a Write stores only inside the reserved range and keeps offset+remaining constant (c14_writer_in_range, c14_adddata_bounded); an accepted response is copied up to the chunk length only (c14_response_limited). Tie: 400 (quick) cases: fileChunks queries on generated layouts (padding, empty, sub-block files), scripted Write/ReadFrom/Close sequences on a real writer with arbitrary split sizes (events and stored blocks compared), and webseedGR fetches against a scripted loopback HTTP server (200/206/416/500, honest/shifted/malformed Content-Range, with/without Content-Length, short/exact/over-long bodies) with monitors: every stored byte is the right byte of the right file, nothing outside the range, every reserved block released.",
        level_note="ReadFrom and the release accounting are covered by correspondence and monitors, not yet by theorems; net/http client behaviour and Sscanf-based Content-Range parsing are not modelled (the harness passes the structured header it sent); Hoffman-style seeds are not exercised.",
        harness="webseed", args=["-prop", "C14"], check_module="WebseedCheck",
        n_quick=400, n_thorough=8000,
        trusted=COMMON_TRUST + ["verif hooks tor/export_verif.go (VerifFileChunks, VerifWebseedGR), tor/piece/export_verif.go (VerifData)", "loopback HTTP server of the harness"],
        assumptions=[],
    ),
    "C07": dict(
        level_text="The plain and the MSE handshake of both roles are programs (Model/Mse.v: client_prog, server_prog) over the read primitives of Model/Hs.v (readMore, synchronise, Write, crand.Read, switch to RC4). Theorem c07_segmentation_independent: for every program, every peer byte stream (given in causal phases), every random tape and every list of read sizes, the operational run (buffer, Reads of oracle-chosen sizes, surplus kept as init) has the outcome, written bytes and delivered bytes (init ++ rest of connection, decrypted) of the reference run that knows nothing of reads, unless the peer broke the MSE framing (p_amb). c07_two_segmentations: two segmentations cannot be told apart in either role. c07_plain_agreement: both ends of a plain handshake succeed, agree on info-hash, ids, capability bits, and each delivers exactly the other's payload. SHA-1, RC4 and the 768-bit modular exponentiation are implemented in Gallina (Base/Crypto.v), so the model is an independent MSE implementation. Tie: 300 (quick) real handshake runs - storrent against storrent and against a scripted MSE peer written from the specification (all pad lengths incl. 0 and 512, IA lengths 0..>68, early and late data, every crypto_provide/select, truncation) - each scenario under several segmentations (coalesced, byte at a time, single cut points incl. the buffer-arithmetic boundaries, random cuts; every cut point 1..260 in the thorough tier), crypto/rand replaced by a tape; the operational model is replayed with the logged read sizes and compared on outcome, result fields, (capacity, n) of every Read, bytes written, bytes delivered and post-handshake wire bytes. Monitors on the implementation alone: same stream under different cuts gives the same outcome/delivered/written bytes; delivered = what the peer sent; the two ends of a pair agree.",
        level_note="MSE agreement between the two ends is a monitor over real runs, not a theorem (the plain case is a theorem); write errors and deadlines are not modelled; reads are modelled as returning at least one byte.",
        harness="handshake", args=["-prop", "C07"], check_module="MseCheck",
        n_quick=300, n_thorough=4000,
        trusted=COMMON_TRUST + ["the harness's in-memory pipe (cut schedule, causal tagging of writes) and its scripted MSE peer (Go stdlib sha1/rc4/big)", "crypto/rand.Reader replaced by a deterministic tape", "Check/DhTable.v caches modexp values (proved equal to modexp)"],
        assumptions=["a conn.Read returns at least one byte or an error", "the peer's bytes tagged k by the pipe are not available before storrent's k-th Write"],
    ),
    "C08": dict(
        level_text="c08_policy_table: exhaustively for both handshake kinds and all 64x64 option pairs, storrent-to-storrent connects only in a mode both policies permit and both ends believe the same mode. c08_server_any_peer / c08_client_any_peer: against any peer (every crypto_provide / crypto_select value, any stream, any segmentation) a handshake that succeeds returns a connection whose mode its own options permit (via all_done over the handshake program). c08_conn_transparent: for any key, any sequence of Conn.Write calls of any sizes and any short or failing underlying write, the wire holds exactly the reported number of bytes, which decrypt to that prefix of what was written; c08_read_pieces, c08_roundtrip. Keys are derived inside Coq from the MSE specification (SHA-1, RC4 with 1024 bytes discarded, DH mod P768) and every byte storrent writes during the handshake is compared with the model's. Tie: the full 2x64x64 grid run on the real handshakes on every run (8192 cells: outcome, type of returned conn, payload visible on the wire or not, agreement), 140 handshake runs as in C07 incl. the independent scripted peer (interoperation), and scripted Write/Read sequences on a real crypto.Conn over a connection that accepts short or fails (sizes around 32 KiB).",
        level_note="tor.DialClient's fallback between handshake kinds is modelled (dial_first/dial_retry) but not exercised: the guard added to protocol.ClientHandshake makes the policy independent of it. Concurrency of Conn (mutexes) is not modelled.",
        harness="handshake", args=["-prop", "C08"], check_module="MseCheck",
        n_quick=160, n_thorough=1600,
        trusted=COMMON_TRUST + ["verif hook crypto/export_verif.go (VerifNewConn, VerifIsConn)", "the harness's in-memory pipe with scripted write failures and its scripted MSE peer", "crypto/rand.Reader replaced by a deterministic tape"],
        assumptions=[],
    ),
}

# properties not claimed, each with a reason (kept current as checks are added)
NOT_APPLICABLE = [
    dict(property_id=p, reason="check not built yet in this round; planned (DESIGN.md section 6)")
    for p in ["C%02d" % i for i in range(1, 21)] if p not in PROPS
]
