# Per-property configuration of ./check
COMMON_TRUST = [
    "correspondence harness (Go, /verif/harness) and its generators; cases evaluated in Coq by vm_compute",
    "genconsts translator (named constants of /repo -> Gen/Consts.v)",
]

PROPS = {
    "C04": dict(
        harness="wire", args=["-prop", "C04"], check_module="WireCheck",
        n_quick=600, n_thorough=12000,
        trusted=COMMON_TRUST + [
            "zeebo/bencode v1.0.0 is specified (Base/Bencode.v), not verified; its agreement with the model is checked by the correspondence on every run",
            "bufio/io/encoding-binary semantics (ReadFull, Discard, LimitReader) as modelled by take/read32",
        ],
        assumptions=[
            "allocation is tied to the model's cost function through runtime.MemStats.TotalAlloc deltas with slack 8x+64KiB (coarse)",
            "absence of panics in protocol.Read is observed by the harness, not proved: the model has no panic path because reader.go performs no indexing or slicing",
        ],
    ),
}
