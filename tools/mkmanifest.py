#!/usr/bin/env python3
"""Regenerate MANIFEST.json from tools/props.py (run by hand after editing props.py)."""
import json, os, subprocess, sys
ROOT = os.path.dirname(os.path.dirname(os.path.abspath(__file__)))
sys.path.insert(0, os.path.join(ROOT, "tools"))
from props import PROPS, NOT_APPLICABLE

hooks = subprocess.run("git -C /repo log --format=%h --grep='^verif hook'", shell=True, stdout=subprocess.PIPE, text=True).stdout.split()
ids = sorted(PROPS)
m = {
    "version": 1,
    "setup_cmd": "./check --setup",
    "hooks": {
        "guard": "verif",
        "enable": "go build -tags verif (CGO_ENABLED=0 GOFLAGS=-mod=mod GOPROXY=off), done by ./check on every run from /repo's working tree",
        "baseline_off_cmd": "cd /repo && go test -mod=mod -json -vet=off -count=1 -timeout 25m ./...",
        "source_commits": hooks,
        "add_only": True,
    },
    "engines": [
        {"name": "rocq-models", "path": "coq/", "serves_properties": ids, "kind_free_text": "Coq 8.16.1 development: executable Gallina models (Model/), lemmas (Proof/), property theorems (Properties/), correspondence/monitor predicates (Check/)"},
        {"name": "go-harness", "path": "harness/", "serves_properties": ids, "kind_free_text": "differential harness built from /repo's working tree with -tags verif; runs the implementation and writes case files that are evaluated inside Coq by vm_compute"},
        {"name": "genconsts", "path": "harness/cmd/genconsts", "serves_properties": ids, "kind_free_text": "Go->Gallina translator for named constants (Gen/Consts.v), rerun on every check"},
    ],
    "checks": [],
    "not_applicable": NOT_APPLICABLE,
    "notes": "All checks: ./check Cxx. Known findings in known_findings.json. Seeded breaking changes used for self-validation in seeded/ (tools/seedcheck.py, not a registered command).",
}
for pid in ids:
    c = PROPS[pid]
    m["checks"].append({
        "property_id": pid,
        "quick_cmd": "./check %s" % pid,
        "thorough_cmd": "./check %s --tier thorough" % pid,
        "evidence_file": "evidence/%s.json" % pid,
        "replay_cmd_template": "./check %s --replay {path}" % pid,
        "engine": "rocq-models",
        "technique": c.get("technique", "machine-checked proof in Rocq (Coq 8.16.1) about an executable Gallina model + differential correspondence check of the model against the Go code on every run"),
        "level_claimed": {"category": "proof", "text": c["level_text"], "design_ref": "DESIGN.md section 6 " + pid},
        "level_note": c["level_note"],
    })
json.dump(m, open(os.path.join(ROOT, "MANIFEST.json"), "w"), indent=1)
print("wrote MANIFEST.json with", len(ids), "checks")
