#!/usr/bin/env python3
# usage: dbgpeer.py <workdir> <case id>  — explain the first mismatching step of a peercore case
import sys, re, subprocess, os
wd, cid = sys.argv[1], int(sys.argv[2])
import glob
for f in sorted(glob.glob(os.path.join(wd, "shard*.v"))):
    s = open(f).read()
    m = re.search(r"\{\| p_id := %d;.*?\] \|\}(?=;\n\{\| p_id|\n\]\.)" % cid, s, flags=re.S)
    if m:
        body = m.group(0)
        out = "From Storrent Require Import Base.Bytes Base.Bencode Model.Wire Model.PeerCore Check.WireCheck Check.PeerCheck.\nOpen Scope N_scope.\nDefinition c : pcase := %s.\nEval vm_compute in explain c.\n" % body
        open("/tmp/dbgpeer.v", "w").write(out)
        r = subprocess.run(["coqc", "-Q", "/verif/coq/theories", "Storrent", "/tmp/dbgpeer.v"], stdout=subprocess.PIPE, stderr=subprocess.STDOUT, text=True)
        print(r.stdout[:6000])
        break
