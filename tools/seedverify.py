#!/usr/bin/env python3
"""seedverify.py [ids...] — independent confirmation of the seeded changes, in scratch worktrees only
(never touches /repo's working tree): the patch applies to HEAD, the tree builds, the existing suite
passes with it, the demonstration fails with it and passes without it.  Writes meta.json "verified".
NOT a registered command."""
import json, os, subprocess, sys, shutil
from concurrent.futures import ThreadPoolExecutor
ROOT = os.path.dirname(os.path.dirname(os.path.abspath(__file__)))
ENV = dict(os.environ, GOFLAGS="-mod=mod", GOPROXY="off", GOSUMDB="off", GOTOOLCHAIN="local")
def sh(cmd, cwd=None, timeout=2400):
    p = subprocess.run(cmd, shell=True, cwd=cwd, env=ENV, stdout=subprocess.PIPE, stderr=subprocess.STDOUT, text=True, timeout=timeout)
    return p.returncode, p.stdout
def one(sid):
    d = os.path.join(ROOT, "seeded", sid)
    meta = json.load(open(os.path.join(d, "meta.json")))
    wt = "/tmp/wt/sv-%s" % sid
    sh("git -C /repo worktree remove --force %s" % wt)
    sh("git -C /repo worktree add --detach %s HEAD -q" % wt)
    res = {}
    try:
        rc, out = sh("git apply %s" % os.path.join(d, "patch.diff"), cwd=wt)
        res["applies"] = rc == 0
        if rc == 0:
            rc, out = sh("go build ./...", cwd=wt)
            res["builds"] = rc == 0
            rc, out = sh("go test -vet=off -count=1 -timeout 20m ./... 2>&1 | tail -30", cwd=wt)
            res["suite_passes_with_change"] = ("FAIL" not in out) and rc == 0
            demo = meta["demo"]
            shutil.copyfile(os.path.join(d, demo["file"]), os.path.join(wt, demo["dest"]))
            rc, out = sh(demo["run"], cwd=wt, timeout=900)
            res["demo_fails_with_change"] = rc != 0
            sh("git apply -R %s" % os.path.join(d, "patch.diff"), cwd=wt)
            rc, out2 = sh(demo["run"], cwd=wt, timeout=900)
            res["demo_passes_without_change"] = rc == 0
            if rc != 0:
                res["note"] = out2[-400:]
    finally:
        sh("git -C /repo worktree remove --force %s" % wt)
    meta["verified"] = res
    meta["verified_at"] = subprocess.run("git -C /repo rev-parse --short HEAD", shell=True, stdout=subprocess.PIPE, text=True).stdout.strip()
    json.dump(meta, open(os.path.join(d, "meta.json"), "w"), indent=1)
    return sid, res
ids = sys.argv[1:] or sorted(x for x in os.listdir(os.path.join(ROOT, "seeded")) if os.path.exists(os.path.join(ROOT, "seeded", x, "meta.json")))
with ThreadPoolExecutor(5) as ex:
    for sid, res in ex.map(one, ids):
        print(sid, res, flush=True)
