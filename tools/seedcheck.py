#!/usr/bin/env python3
"""seedcheck.py <seed-dir> [--no-verify] — validate a seeded breaking change and run the check against it.

seed-dir holds patch.diff, the demonstration and meta.json:
  {"property": "C04", "breaks": "...", "needs": "...",
   "demo": {"file": "demo_test.go", "dest": "protocol/demo_c04a_test.go", "run": "go test ... ./protocol/"}}
Steps: (1) in a scratch worktree of /repo: patch applies, go build ok, existing tests pass with it,
demo fails with it and passes without it; (2) git -C /repo apply, ./check <prop>, git -C /repo checkout.
Results are written back into meta.json ("verified", "check_result").
NOT a registered command; self-validation of the machinery only.
"""
import json, os, subprocess, sys, shutil, time

ROOT = os.path.dirname(os.path.dirname(os.path.abspath(__file__)))
ENV = dict(os.environ, GOFLAGS="-mod=mod", GOPROXY="off", GOSUMDB="off", GOTOOLCHAIN="local")


def sh(cmd, cwd=None, timeout=1800):
    p = subprocess.run(cmd, shell=True, cwd=cwd, env=ENV, stdout=subprocess.PIPE, stderr=subprocess.STDOUT, text=True, timeout=timeout)
    return p.returncode, p.stdout


def main():
    d = os.path.abspath(sys.argv[1])
    verify = "--no-verify" not in sys.argv
    meta = json.load(open(os.path.join(d, "meta.json")))
    prop = meta["property"]
    patch = os.path.join(d, "patch.diff")
    res = {}
    if verify:
        wt = "/tmp/wt/seedcheck-%d" % os.getpid()
        sh("git -C /repo worktree add --detach %s HEAD -q" % wt)
        try:
            rc, out = sh("git apply %s" % patch, cwd=wt)
            res["applies"] = rc == 0
            if rc != 0:
                print(out)
            rc, out = sh("go build ./...", cwd=wt)
            res["builds"] = rc == 0
            rc, out = sh("go test -vet=off -count=1 -timeout 20m ./... 2>&1 | tail -30", cwd=wt)
            res["suite_passes_with_change"] = ("FAIL" not in out) and rc == 0
            if not res["suite_passes_with_change"]:
                print(out)
            demo = meta["demo"]
            shutil.copyfile(os.path.join(d, demo["file"]), os.path.join(wt, demo["dest"]))
            rc, out = sh(demo["run"], cwd=wt, timeout=600)
            res["demo_fails_with_change"] = rc != 0
            sh("git apply -R %s" % patch, cwd=wt)
            rc, out = sh(demo["run"], cwd=wt, timeout=600)
            res["demo_passes_without_change"] = rc == 0
            if rc != 0:
                print(out[-2000:])
        finally:
            sh("git -C /repo worktree remove --force %s" % wt)
        meta["verified"] = res
        print("verify:", res)
    # run the check against /repo with the change applied
    rc, out = sh("git -C /repo status --porcelain")
    if out.strip():
        print("refusing: /repo is not clean:\n" + out)
        return 2
    rc, out = sh("git -C /repo apply %s" % patch)
    if rc != 0:
        print("patch does not apply to /repo:", out)
        return 2
    try:
        t0 = time.time()
        checks = meta.get("checks", [prop])
        results = {}
        for c in checks:
            rc, out = sh("./check %s" % c, cwd=ROOT, timeout=3600)
            viol = [l for l in out.splitlines() if l.startswith("VIOLATION")]
            results[c] = dict(exit=rc, violation=viol[:1], wall_s=round(time.time() - t0, 1))
            replay = None
            if viol:
                parts = viol[0].split()
                rp = [p for p in parts if p.startswith("replay=")]
                if rp and os.path.exists(rp[0][7:]):
                    rj = json.load(open(rp[0][7:]))
                    results[c]["replay_case"] = json.dumps(rj.get("case"))[:400]
                    results[c]["replay_broken"] = rj.get("broken")
        meta["check_result"] = results
    finally:
        sh("git -C /repo checkout -- .")
    json.dump(meta, open(os.path.join(d, "meta.json"), "w"), indent=1)
    print(json.dumps(meta.get("check_result"), indent=1))
    # restore evidence for the clean tree is the caller's job (re-run ./check)
    return 0


if __name__ == "__main__":
    sys.exit(main())
