#!/bin/sh
# Re-run every seeded change against the current checks (self-validation; not a registered command).
# usage: tools/seedall.sh [ids...]   — needs a clean /repo working tree
cd "$(dirname "$0")/.."
ids="$@"
[ -z "$ids" ] && ids=$(ls seeded)
for s in $ids; do
  [ -f seeded/$s/meta.json ] || continue
  python3 tools/seedcheck.py seeded/$s --no-verify > /tmp/seedall_$s.log 2>&1
  python3 - "$s" <<'PY'
import json,sys
m=json.load(open('seeded/%s/meta.json'%sys.argv[1]))
r=m.get('check_result',{})
print(sys.argv[1], {k:(v['exit'], (v['violation'] or [''])[0].split('replay=')[-1][-45:]) for k,v in r.items()})
PY
done
